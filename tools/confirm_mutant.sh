#!/bin/bash
# tools/confirm_mutant.sh <worktree> <outdir> <X>   (X = A or B)
# Confirms a seeded change independently: applies to a scratch worktree at /repo's
# HEAD, demo must exit 1 with the change and 0 without, the existing tests that
# exercise the touched code (and tests/core) must still pass with the change.
set -u
WT=$1; OUT=$2; X=$3
export PYTHONPATH="$WT/src" JAX_PLATFORMS=cpu PYTHONWARNINGS=ignore
git -C "$WT" checkout -q -- . && git -C "$WT" checkout -q --detach main || exit 3
cd "$WT"
/venv/bin/python "$OUT/$X.demo.py" >/tmp/confirm.$$.clean 2>&1; c0=$?
git apply "$OUT/$X.patch.diff" || { echo "{\"applies\": false}"; exit 3; }
/venv/bin/python "$OUT/$X.demo.py" >/tmp/confirm.$$.mut 2>&1; c1=$?
/venv/bin/python -c "import genjax" 2>/dev/null; imp=$?
t0=$(date +%s)
timeout 3000 /venv/bin/python -m pytest -q -p no:cacheprovider -x tests/generative_functions tests/core/generative tests/core/interpreters tests/core/test_diff.py tests/core/test_pytree.py tests/core/test_staging.py tests/inference 2>&1 | tail -1 > /tmp/confirm.$$.tests
t1=$(date +%s)
git checkout -q -- .
echo "{\"mutant\": \"$(basename $OUT)/$X\", \"demo_clean_exit\": $c0, \"demo_mutant_exit\": $c1, \"imports\": $imp, \"tests\": \"$(cat /tmp/confirm.$$.tests | tr -d '\"')\", \"tests_s\": $((t1-t0)), \"demo_output\": \"$(grep -v condarc /tmp/confirm.$$.mut | tail -2 | tr -d '\"\\' | tr '\n' ' ' | cut -c1-300)\"}"
rm -f /tmp/confirm.$$.*
