#!/bin/bash
# tools/runall.sh [tier]  - runs every registered check once (VERIF_SEED from env), prints a summary.
cd "$(dirname "$0")/.." || exit 2
TIER=${1:-quick}
PIDS=$(/venv/bin/python -c "import json; print(' '.join(c['property_id'] for c in json.load(open('MANIFEST.json'))['checks']))")
fail=0
for p in $PIDS; do
  s=$(date +%s)
  ./check $p --tier $TIER > /tmp/runall.$p.log 2>&1; rc=$?
  e=$(date +%s)
  echo "$p exit=$rc $((e-s))s $(grep -c '^VIOLATION' /tmp/runall.$p.log) violations $(grep -c '^KNOWN-FINDING' /tmp/runall.$p.log) known | $(tail -1 /tmp/runall.$p.log | cut -c1-160)"
  [ $rc -ne 0 ] && { fail=1; grep -A2 -E '^VIOLATION|HARNESS' /tmp/runall.$p.log | sed 's/\x1b\[[0-9;]*m//g' | cut -c1-400 | head -12; }
done
exit $fail
