#!/bin/bash
# tools/sensitivity.sh [seeded-id ...]
# Sensitivity self-test (DESIGN 2.12 / 8.8): every kept seeded change is applied,
# one at a time, to a scratch worktree of /repo's HEAD (outside /repo and /verif,
# removed afterwards) and the first quick check listed in its meta.json under
# caught_by_quick_checks must report a VIOLATION.  /repo itself is never touched.
cd "$(dirname "$0")/.." || exit 2
WT=$(mktemp -d /tmp/sens.XXXXXX)
git -C /repo worktree add -q --detach "$WT" HEAD || exit 2
trap 'git -C /repo worktree remove --force "$WT" >/dev/null 2>&1; rm -rf "$WT" /tmp/sensout.$$' EXIT
ids=${@:-$(ls seeded)}
fail=0
for id in $ids; do
  pid=$(/venv/bin/python -c "import json,sys; m=json.load(open('seeded/$id/meta.json')); c=m.get('caught_by_quick_checks') or []; print(c[0] if c else '')")
  if [ -z "$pid" ]; then echo "$id: (no quick check catches it - recorded miss)"; continue; fi
  git -C "$WT" checkout -q -- . && git -C "$WT" apply "seeded/$id/patch.diff" || { echo "$id: patch does not apply"; fail=1; continue; }
  PYTHONPATH="$WT/src" VERIF_OUT=/tmp/sensout.$$ ./check "$pid" --tier quick > /tmp/sensout.$$.log 2>&1; rc=$?
  n=$(grep -c '^VIOLATION' /tmp/sensout.$$.log)
  if [ $rc -eq 1 ] && [ "$n" -gt 0 ]; then echo "$id: caught by $pid ($n distinct)"; else echo "$id: NOT caught by $pid (exit $rc)"; fail=1; fi
done
exit $fail
