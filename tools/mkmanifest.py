#!/venv/bin/python
"""Regenerates /verif/MANIFEST.json from the tables below (single source of truth).

Run:  /venv/bin/python tools/mkmanifest.py
"""

import json
import os

ROOT = os.path.dirname(os.path.dirname(os.path.abspath(__file__)))

NA = {
    "C09": "single-call relation between one JAX function, one tagging and the output of incremental(f); no history, schedule, fault or environment enters the statement, so deciding it is property-based differential testing of a pure function, not simulation (DESIGN 4)",
    "C18": "Boolean algebra of immutable selection terms, stated as bounded-exhaustive: that is enumeration of a bounded space (model checking), which this technique family explicitly is not; pure function of its input (DESIGN 4)",
    "C20": "stateless helpers (FlagOp, tree_choose, multi_switch) as pure functions of their arguments; exercised indirectly by engines A/B but nothing in the statement depends on a history or environment (DESIGN 4)",
    "C21": "structure-preserving round trips of pure pytree utilities; pure function of input (DESIGN 4)",
    "C24": "per-call numeric equality of 45 distribution wrappers with TFP log_prob over parameter domains; pure input/output comparison (DESIGN 4)",
    "C25": "unbiasedness in expectation of Marginal.random_weighted: needs Monte-Carlo estimation with a statistical tolerance, no schedule/fault/history in the statement (DESIGN 4)",
    "C26": "proper weighting / unbiased evidence of Importance and SMC: statistical estimation, not simulation (DESIGN 4)",
    "C27": "closed-form identity for the weight of one Rejuvenate.edit call; pure (DESIGN 4)",
    "C28": "trajectory and MH ratio of one HMC.edit call against a leapfrog integrator; pure numeric comparison (DESIGN 4)",
    "C29": "correctness/unbiasedness of ADEV derivative estimators; analytic and statistical oracles over inputs only (DESIGN 4)",
    "C30": "unbiasedness of VI gradient estimators; statistical (DESIGN 4)",
    "C36": "transparency of the stateful interpreter on generated jaxprs; pure differential test of one call (DESIGN 4)",
    "C37": "exactness of an HMM posterior by exhaustive enumeration of small configurations; pure and enumerative (DESIGN 4)",
}

# property id -> (engine, technique, level text, level note, design ref)
A = "gfisim"
CLAIMED = {}


def claim(pid, engine, technique, text, note, ref):
    CLAIMED[pid] = (engine, technique, text, note, ref)


# filled in by sim/registry.py as checks come on line
try:
    import sys

    sys.path.insert(0, ROOT)
    from sim.registry import CLAIMS  # noqa: E402

    for pid, c in CLAIMS.items():
        claim(pid, *c)
except ImportError:
    pass

ALL = ["C%02d" % i for i in range(1, 39)]

PENDING_REASON = "not claimed yet: simulation check under construction in this tree (see DESIGN 3); will move to checks[] when its engine lands"


def main():
    checks = []
    for pid in ALL:
        if pid in CLAIMED:
            engine, technique, text, note, ref = CLAIMED[pid]
            checks.append({
                "property_id": pid,
                "quick_cmd": "./check %s --tier quick" % pid,
                "thorough_cmd": "./check %s --tier thorough" % pid,
                "evidence_file": "/verif/evidence/%s.json" % pid,
                "replay_cmd_template": "./check replay {path}",
                "engine": engine,
                "level_claimed": {
                    "category": "exploration",
                    "text": text,
                    "design_ref": ref,
                },
                "level_note": note,
                "technique": technique,
            })
    na = []
    for pid in ALL:
        if pid in CLAIMED:
            continue
        na.append({"property_id": pid, "reason": NA.get(pid, PENDING_REASON)})
    engines = [
        {
            "name": "gfisim",
            "path": "sim/gfisim.py",
            "serves_properties": sorted(p for p, c in CLAIMED.items() if c[0] == "gfisim"),
            "kind_free_text": "deterministic seeded simulation of GFI sessions (create/edit/undo/read/abort steps) on generated programs, on replicas that differ only in injected environment faults (staging, pytree boundary, cache, encoding, retagging, aborted ops), stepped against an independent NumPy/SciPy reference interpreter",
        },
        {
            "name": "chmsim",
            "path": "sim/chmsim.py",
            "serves_properties": sorted(p for p, c in CLAIMED.items() if c[0] == "chmsim"),
            "kind_free_text": "seeded simulation of choice-map / mask construction histories against a finite-map model, concrete vs array vs jit/vmap-traced replicas, several hash seeds",
        },
        {
            "name": "ttsim",
            "path": "sim/ttsim.py",
            "serves_properties": sorted(p for p, c in CLAIMED.items() if c[0] == "ttsim"),
            "kind_free_text": "seeded simulation of time-travel debugger navigation histories against a list-and-pointer model, eager vs jit replicas",
        },
    ]
    engines = [e for e in engines if e["serves_properties"]]
    manifest = {
        "version": 1,
        "setup_cmd": "./check setup",
        "hooks": {
            "guard": "GENJAX_VERIF",
            "enable": "no source hooks: every seam (keys, staging, pytree boundaries, caches, checkify mode, hash seed, argument encodings) is applied from outside the library by the simulator; GENJAX_VERIF is reserved and unused",
            "baseline_off_cmd": "cd /repo && /venv/bin/python -m pytest -ra -q -p no:cacheprovider --timeout=900 --continue-on-collection-errors",
            "source_commits": [],
            "add_only": True,
        },
        "engines": engines,
        "checks": checks,
        "notes": "Technique family: deterministic simulation with fault injection. GenJAX has no threads, clocks, network or disk; the simulated nondeterminism is the execution environment the caller controls (PRNG keys, jit/vmap staging, pytree boundaries, process-global caches, hash seed, aborted operations, argument encodings). See DESIGN.md 1-2. known_findings.json lists genuine defects recorded rather than repaired and the fix: commits made.",
        "not_applicable": na,
    }
    with open(os.path.join(ROOT, "MANIFEST.json"), "w") as f:
        json.dump(manifest, f, indent=1)
        f.write("\n")
    print("MANIFEST.json: %d checks, %d not_applicable" % (len(checks), len(na)))


if __name__ == "__main__":
    main()
