#!/venv/bin/python
"""Developer tool: minimise the violation `oracle` of session (pid, tier, seed)
and write it as the witness replay of a known finding.

  tools/mkwitness.py <finding-id> <pid> <tier> <session-seed> <oracle> [class]
"""
import json
import os
import sys
import warnings

warnings.filterwarnings("ignore")
ROOT = os.path.dirname(os.path.dirname(os.path.abspath(__file__)))
sys.path.insert(0, ROOT)
os.environ.setdefault("JAX_PLATFORMS", "cpu")

from sim import script as S  # noqa: E402
from sim import shrink  # noqa: E402
from sim.registry import ENGINE  # noqa: E402


def main():
    fid, pid, tier, seed, oracle = sys.argv[1:6]
    cls = sys.argv[6] if len(sys.argv) > 6 else None
    seed = int(seed)
    engine = ENGINE[pid]
    if engine == "gfisim":
        sc = S.gen_session(seed, pid, tier)
    else:
        mod = __import__("sim." + engine, fromlist=["x"])
        sc = mod.gen_script(seed, pid, tier)
    vs = shrink._violations_of(engine, sc, pid)
    hit = [v for v in vs if v["oracle"] == oracle and (cls is None or v["class"] == cls)]
    if not hit:
        print("oracle not hit; got", sorted({(v["oracle"], v["class"]) for v in vs}))
        return 1
    v = hit[0]
    use_pid = pid if pid in v["props"] else v["props"][0]
    msc, mv, runs = shrink.minimise(engine, sc, use_pid, v)
    os.makedirs(os.path.join(ROOT, "replays", "known"), exist_ok=True)
    path = os.path.join(ROOT, "replays", "known", fid + ".json")
    rp = {
        "property_id": use_pid,
        "engine": engine,
        "tier": tier,
        "seed": seed,
        "fingerprint": [mv["oracle"], mv["class"]],
        "violation": mv,
        "shrink_runs": runs,
        "repo": shrink.repo_state(),
        "script": msc,
    }
    with open(path, "w") as f:
        json.dump(rp, f, indent=1, default=str)
        f.write("\n")
    print("wrote", path, "after", runs, "runs;", len(msc["steps"]), "steps")
    print(mv["detail"][:500])
    return 0


if __name__ == "__main__":
    sys.exit(main())
