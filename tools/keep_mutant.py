#!/venv/bin/python
"""tools/keep_mutant.py <id> <X> <confirm-json> <caught_by csv> <missed_by csv> [note]
Copies a confirmed seeded change from /tmp/mut/<id>.out into /verif/seeded/<id>-<X>/."""
import json, os, shutil, sys
ROOT = os.path.dirname(os.path.dirname(os.path.abspath(__file__)))
mid, X, confirm, caught, missed = sys.argv[1:6]
note = sys.argv[6] if len(sys.argv) > 6 else ""
src = os.environ.get("KEEP_SRC") or "/tmp/mut/%s.out" % mid
dst = os.path.join(ROOT, "seeded", os.environ.get("KEEP_DST") or "%s-%s" % (mid, X))
os.makedirs(dst, exist_ok=True)
shutil.copy(os.path.join(src, X + ".patch.diff"), os.path.join(dst, "patch.diff"))
shutil.copy(os.path.join(src, X + ".demo.py"), os.path.join(dst, "demo.py"))
meta = json.load(open(os.path.join(src, X + ".meta.json")))
meta["confirmed_by_me"] = json.loads(confirm)
meta["what_i_ran"] = "tools/confirm_mutant.sh (scratch worktree at /repo HEAD: demo exits 1 with the change and 0 without; tests/generative_functions tests/core/{generative,interpreters,test_diff,test_pytree,test_staging} tests/inference pass with the change) and tools/runmutant.sh (quick checks against the patched worktree through PYTHONPATH)"
meta["caught_by_quick_checks"] = [c for c in caught.split(",") if c]
meta["not_caught_by_quick_checks"] = [c for c in missed.split(",") if c]
if note:
    meta["note"] = note
json.dump(meta, open(os.path.join(dst, "meta.json"), "w"), indent=1)
print("kept", dst)
