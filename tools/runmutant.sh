#!/bin/bash
# tools/runmutant.sh <worktree> <patch.diff> <pid> [<pid>...]
# Applies a seeded change inside a scratch worktree (never /repo), runs the quick
# checks against that copy through PYTHONPATH, reverts.  Output goes to a scratch
# VERIF_OUT so that committed evidence/replays are not touched.
set -u
WT=$1; PATCH=$2; shift 2
[ -d "$WT" ] || git -C /repo worktree add -q --detach "$WT" main; git -C "$WT" checkout -q -- . && git -C "$WT" checkout -q --detach main && git -C "$WT" apply "$PATCH" || { echo "patch does not apply"; exit 3; }
OUT=$(mktemp -d /tmp/mutout.XXXXXX)
for pid in "$@"; do
  echo "=== $pid vs $(basename "$PATCH")"
  PYTHONPATH="$WT/src" VERIF_OUT="$OUT" VERIF_SESSIONS="${VERIF_SESSIONS:-}" "$(dirname "$0")/../check" "$pid" --tier "${TIER:-quick}" 2>&1 | grep -v condarc | sed 's/\x1b\[[0-9;]*m//g' | grep -E "VIOLATION|oracle=|^  |quick:|thorough:|HARNESS" | cut -c1-330 | head -14
done
git -C "$WT" checkout -q -- .
echo "scratch output in $OUT"
