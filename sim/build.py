"""AST -> real GenJAX generative function (the system under test runs for real:
static language, interpreters, every combinator).  Imports genjax."""

import json

import genjax
import jax
import jax.numpy as jnp
import jax.tree_util as jtu

from sim.ref import sig
from sim.seedhash import H
from sim.texpr import Backend, Env, ev

JNP32 = Backend(jnp, jnp.float32, jnp.int32, True)

_DISTS = {
    "normal": genjax.normal,
    "normalv": genjax.normal,
    "uniform": genjax.uniform,
    "exponential": genjax.exponential,
    "beta": genjax.beta,
    "gamma": genjax.gamma,
    "flip": genjax.flip,
    "flipv": genjax.flip,
    "bernoulli": genjax.bernoulli,
    "categorical": genjax.categorical,
    "poisson": genjax.poisson,
}

_CACHE = {}


def clear_build_cache():
    _CACHE.clear()


def build(node):
    key = json.dumps(node, sort_keys=True)
    if key not in _CACHE:
        _CACHE[key] = _build(node)
    return _CACHE[key]


def _addr(a):
    return a[0] if len(a) == 1 else tuple(a)


def _build(node):
    k = node["k"]
    if k == "dist":
        return _DISTS[node["d"]]
    if k == "static":
        stmts = node["stmts"]
        callees = [build(s["callee"]) for s in stmts]
        ret = node["ret"]
        npar = len(node["ptypes"])
        kwnames = sorted(node.get("kwp", {}))

        def body(*params, **kw):
            env = Env(list(params[:npar]), [], kw)
            for s, callee in zip(stmts, callees):
                args = [ev(a, env, JNP32) for a in s["args"]]
                if s.get("kw"):
                    kws = {n: ev(e, env, JNP32) for n, e in sorted(s["kw"].items())}
                    v = callee(*args, **kws) @ _addr(s["addr"])
                else:
                    v = callee(*args) @ _addr(s["addr"])
                env.vals.append(v)
            return ev(ret, env, JNP32)

        body.__name__ = "prog_%08x" % (H(json.dumps(node, sort_keys=True)) & 0xFFFFFFFF)
        return genjax.gen(body)
    if k == "vmap":
        inner = build(node["inner"])
        axes = tuple(node["axes"])
        if node.get("method", True):
            return inner.vmap(in_axes=axes)
        return genjax.vmap(in_axes=axes)(inner)
    if k == "repeat":
        return build(node["inner"]).repeat(n=node["n"])
    if k == "scan":
        inner = build(node["inner"])
        return inner.scan(n=node["n"] if node.get("use_n") else None)
    if k == "accumulate":
        return build(node["inner"]).accumulate()
    if k == "reduce":
        return build(node["inner"]).reduce()
    if k == "iterate":
        return build(node["inner"]).iterate(n=node["n"])
    if k == "iterate_final":
        return build(node["inner"]).iterate_final(n=node["n"])
    if k == "masked_iterate":
        return build(node["inner"]).masked_iterate()
    if k == "masked_iterate_final":
        return build(node["inner"]).masked_iterate_final()
    if k == "switch":
        bs = [build(b) for b in node["branches"]]
        return genjax.switch(*bs)
    if k == "or_else":
        return build(node["a"]).or_else(build(node["b"]))
    if k == "mix":
        bs = [build(b) for b in node["branches"]]
        return genjax.mix(*bs)
    if k == "mask":
        return build(node["inner"]).mask()
    if k == "dimap":
        inner = build(node["inner"])
        pre_e, post_e = node["pre"], node["post"]

        def pre(*args):
            env = Env(list(args), [])
            return tuple(ev(e, env, JNP32) for e in pre_e)

        def post(args, xformed, ret):
            env = Env(list(args), [ret] + list(xformed))
            return ev(post_e, env, JNP32)

        return inner.dimap(pre=pre, post=post)
    if k == "map":
        inner = build(node["inner"])
        post_e = node["post"]

        def f(ret):
            return ev(post_e, Env([], [ret]), JNP32)

        return inner.map(f)
    if k == "contramap":
        inner = build(node["inner"])
        pre_e = node["pre"]

        def pre(*args):
            env = Env(list(args), [])
            return tuple(ev(e, env, JNP32) for e in pre_e)

        return inner.contramap(pre)
    if k == "closure":
        inner = build(node["inner"])
        ins, _ = sig(node["inner"])
        stored = [to_jax(v, t) for v, t in zip(node["stored"], ins)]
        kw = {}
        if node.get("kwvals"):
            kwp = node["inner"]["kwp"]
            kw = {n: to_jax(node["kwvals"][n], kwp[n]) for n in sorted(kwp)}
        gf = inner(*stored, **kw)
        INNER_OF[id(gf)] = (inner, gf)
        return gf
    if k == "partial":
        inner = build(node["inner"])
        ins, _ = sig(node["inner"])
        stored = [to_jax(v, t) for v, t in zip(node["stored"], ins)]
        gf = inner.partial_apply(*stored)
        INNER_OF[id(gf)] = (inner, gf)
        return gf
    raise ValueError(k)


# closure / partial object -> (the generative function it partially applies, itself)
INNER_OF = {}


def sibling(gf, node2):
    """Another partial application of the SAME underlying generative function
    object, with node2's stored arguments (C32: applications must not interfere)."""
    inner, _ = INNER_OF[id(gf)]
    ins, _ = sig(node2["inner"])
    stored = [to_jax(v, t) for v, t in zip(node2["stored"], ins)]
    if node2["k"] == "partial":
        return inner.partial_apply(*stored)
    kw = {}
    if node2.get("kwvals"):
        kwp = node2["inner"]["kwp"]
        kw = {n: to_jax(node2["kwvals"][n], kwp[n]) for n in sorted(kwp)}
    return inner(*stored, **kw)


# --------------------------------------------------------------- values


def to_jax(v, t, enc="py"):
    """JSON value of type t -> value handed to GenJAX.

    enc: "py"   scalars stay Python float/int/bool (the plain replica)
         "arr"  scalars become 0-d jax arrays
    Vectors are always jax arrays (struct of arrays)."""
    k = t[0]
    if k == "F":
        return float(v) if enc == "py" else jnp.asarray(v, dtype=jnp.float32)
    if k == "I":
        return int(v) if enc == "py" else jnp.asarray(v, dtype=jnp.int32)
    if k == "B":
        return bool(v) if enc == "py" else jnp.asarray(v, dtype=bool)
    if k == "N":
        return None
    if k == "T":
        return tuple(to_jax(x, s, enc) for x, s in zip(v, t[1]))
    if k == "V":
        return _stack_jax(v, t[1], t[2])
    raise ValueError(t)


def _stack_jax(vals, n, t):
    k = t[0]
    if k == "F":
        return jnp.asarray(vals, dtype=jnp.float32).reshape((n,))
    if k == "I":
        return jnp.asarray(vals, dtype=jnp.int32).reshape((n,))
    if k == "B":
        return jnp.asarray(vals, dtype=bool).reshape((n,))
    if k == "N":
        return None
    if k == "T":
        return tuple(_stack_jax([v[i] for v in vals], n, s) for i, s in enumerate(t[1]))
    if k == "V":
        elems = [_stack_jax(v, t[1], t[2]) for v in vals]
        if not elems:
            sub = _stack_jax([_zero_json(t[2])] * t[1], t[1], t[2])
            return jtu.tree_map(lambda a: jnp.zeros((0,) + a.shape, a.dtype), sub)
        return jtu.tree_map(lambda *xs: jnp.stack(xs), *elems)
    raise ValueError(t)


def _zero_json(t):
    k = t[0]
    if k == "F":
        return 0.0
    if k == "I":
        return 0
    if k == "B":
        return False
    if k == "N":
        return None
    if k == "T":
        return [_zero_json(s) for s in t[1]]
    if k == "V":
        return [_zero_json(t[2])] * t[1]
    raise ValueError(t)


def args_to_jax(node, args, enc="py"):
    ins, _ = sig(node)
    return tuple(to_jax(v, t, enc) for v, t in zip(args, ins))
