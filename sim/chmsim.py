"""Engine B: choice-map / mask construction histories against a finite-map model
(C17) and the mask value algebra against its truth tables (C19), on replicas
that differ in how flags and indices are encoded (concrete Python values, arrays,
traced under jit, vectorised under vmap).

gen_script(seed, pid, tier) is pure Python; run_session executes on real GenJAX.
"""

import json
import warnings

from sim.seedhash import H, rng_for

ALPHA = ["a", "b", "c"]

# ------------------------------------------------------------------ generation


class _Gen:
    def __init__(self, rng):
        self.rng = rng
        self.nv = 0
        # style of the index level directly below a static prefix (global per
        # session so that unions are between structurally compatible maps)
        self.style = {}
        self.schema = {}  # static part -> (int positions, style): one layout per session
        self.models = {}  # name -> {addr: [flag, value]}

    def claim(self, addr, style):
        """Register the layout of the leaf family of `addr`; False if it clashes
        with what the session already uses (maps with clashing layouts cannot be
        united by design: `Choice and non-Choice in Or`)."""
        sp = tuple(c for c in addr if isinstance(c, str))
        pos = tuple(i for i, c in enumerate(addr) if isinstance(c, int))
        if sp in self.schema:
            return self.schema[sp] == (pos, style)
        for t, (tpos, tstyle) in self.schema.items():
            if t[: len(sp)] == sp or sp[: len(t)] == t:
                return False
            # an index component of a lookup is applied to every sub-map below
            # the static prefix it follows, so all leaves that share that prefix
            # must carry their index level at the same position
            if pos and t[: pos[0]] == sp[: pos[0]] and (not tpos or tpos[0] != pos[0]):
                return False
            if tpos and sp[: tpos[0]] == t[: tpos[0]] and (not pos or pos[0] != tpos[0]):
                return False
            if (tstyle == "dense") != (style == "dense") and pos and tpos and t[: pos[0]] == sp[: pos[0]]:
                return False
        self.schema[sp] = (pos, style)
        return True

    def val(self):
        self.nv += 1
        return float(self.nv) + 0.25  # unique, exactly representable

    def static_path(self, maxlen=2):
        n = self.rng.randint(1, maxlen)
        return [self.rng.choice(ALPHA) for _ in range(n)]

    def style_of(self, pre):
        key = tuple(pre)
        if key not in self.style:
            self.style[key] = self.rng.choice(["scalar", "scalar", "idx", "dense", "sparse"])
        return self.style[key]


def _prefix_conflict(m, addr):
    a = tuple(addr)
    for b in m:
        if b != a and (b[: len(a)] == a or a[: len(b)] == b):
            return True
    return False


def _compatible(m1, m2):
    for a in m1:
        if _prefix_conflict(m2, a):
            return False
    return True


def _family_addrs(op):
    k = op["op"]
    if k in ("kw", "d"):
        out = []
        for kk, v in op["d"].items():
            if isinstance(v, dict):
                out += [(kk, k2) for k2 in v]
            else:
                out.append((kk,))
        return out
    if k == "set":
        return [tuple(op["addr"])]
    if k == "slice":
        return [tuple(op["pre"] + [i] + op["post"]) for i in range(len(op["vals"]))]
    return [tuple(op["pre"] + [i] + op["post"]) for i in op["idxs"]]


def gen_script_c17(seed, tier):
    rng = rng_for(seed, "chm")
    g = _Gen(rng)
    n_ops = rng.randint(3, 8 if tier == "quick" else 12)
    ops = []
    names = []
    terminal = set()
    has_switch = set()

    def new(model, op):
        name = "m%d" % len(names)
        op["out"] = name
        names.append(name)
        g.models[name] = model
        ops.append(op)

    families = []  # past leaf-family constructions, re-issued with fresh values

    def revalue(op):
        """the same construction (same addresses) with new values"""
        import copy as _copy

        op = _copy.deepcopy(op)
        op.pop("out", None)
        k = op["op"]
        if k in ("kw", "d"):
            def rv(d):
                return {kk: (rv(v) if isinstance(v, dict) else g.val()) for kk, v in d.items()}

            op["d"] = rv(op["d"])
            model = {}
            for kk, v in op["d"].items():
                if isinstance(v, dict):
                    for k2, v2 in v.items():
                        model[(kk, k2)] = [True, v2]
                else:
                    model[(kk,)] = [True, v]
            return op, model
        if k == "set":
            op["v"] = g.val()
            return op, {tuple(op["addr"]): [True, op["v"]]}
        if k == "slice":
            op["vals"] = [g.val() for _ in op["vals"]]
            return op, {tuple(op["pre"] + [i] + op["post"]): [True, v] for i, v in enumerate(op["vals"])}
        op["vals"] = [g.val() for _ in op["vals"]]
        return op, {tuple(op["pre"] + [i] + op["post"]): [True, v] for i, v in zip(op["idxs"], op["vals"])}

    def fresh_leaf_entries():
        """one construction of a small map; returns (op, model)"""
        if families and rng.random() < 0.45:
            return revalue(rng.choice(families))
        op, model = _fresh_leaf_entries()
        families.append(op)
        return op, model

    def _fresh_leaf_entries():
        for _ in range(50):
            pre = g.static_path()
            st = rng.choice(["scalar", "scalar", "idx", "dense", "sparse"])
            if st == "scalar":
                if rng.random() < 0.5:
                    d = {}
                    model = {}
                    for k in rng.sample(ALPHA, rng.randint(1, 3)):
                        if rng.random() < 0.3:
                            sub = {}
                            for k2 in rng.sample(ALPHA, rng.randint(1, 2)):
                                if g.claim((k, k2), "scalar"):
                                    v = g.val()
                                    sub[k2] = v
                                    model[(k, k2)] = [True, v]
                            if sub:
                                d[k] = sub
                        elif g.claim((k,), "scalar"):
                            v = g.val()
                            d[k] = v
                            model[(k,)] = [True, v]
                    if d:
                        return {"op": rng.choice(["kw", "d"]), "d": d}, model
                    continue
                if not g.claim(tuple(pre), "scalar"):
                    continue
                v = g.val()
                return {"op": "set", "addr": pre, "v": v, "via": rng.choice(["C", "entry", "extend"])}, {tuple(pre): [True, v]}
            post = [rng.choice(ALPHA)] if rng.random() < 0.4 else []
            if not g.claim(tuple(pre + [0] + post), st):
                continue
            if st == "idx":
                i = rng.randrange(3)
                v = g.val()
                addr = pre + [i] + post
                return {"op": "set", "addr": addr, "v": v, "via": rng.choice(["C", "entry", "extend"])}, {tuple(addr): [True, v]}
            if st == "dense":
                n = 3
                vals = [g.val() for _ in range(n)]
                model = {tuple(pre + [i] + post): [True, vals[i]] for i in range(n)}
                return {"op": "slice", "pre": pre, "post": post, "vals": vals}, model
            idxs = sorted(rng.sample(range(3), rng.randint(1, 3)))
            vals = [g.val() for _ in idxs]
            model = {tuple(pre + [i] + post): [True, v] for i, v in zip(idxs, vals)}
            return {"op": "arrset", "pre": pre, "idxs": idxs, "post": post, "vals": vals, "via": rng.choice(["array", "vmapped"])}, model
        v = g.val()
        name = "u%d" % len(names)
        g.claim((name,), "scalar")
        return {"op": "set", "addr": [name], "v": v, "via": "C"}, {(name,): [True, v]}

    while len(ops) < n_ops:
        r = rng.random()
        if not names or r < 0.35:
            op, model = fresh_leaf_entries()
            new(model, op)
            continue
        operands = [x for x in names if x not in terminal]
        if not operands:
            op, model = fresh_leaf_entries()
            new(model, op)
            continue
        a = rng.choice(operands)
        ma = g.models[a]
        if rng.random() < 0.2 and families and len(ops) + 2 <= n_ops + 1:
            # a union whose operands overlap with *different* values: re-issue a
            # construction that shares addresses with `a`, then unite both ways
            fam = [f for f in families if any(tuple(k) in ma for k in _family_addrs(f))]
            if fam:
                op2, model2 = revalue(rng.choice(fam))
                new(model2, op2)
                b = names[-1]
                left, right = (a, b) if rng.random() < 0.5 else (b, a)
                ml, mr = g.models[left], g.models[right]
                if _compatible(ml, mr) and not (left in has_switch and right in has_switch):
                    model = {k: list(v) for k, v in mr.items()}
                    for k, v in ml.items():
                        if v[0] or k not in model:
                            model[k] = list(v)
                    new(model, {"op": "or", "a": left, "b": right})
                    if left in has_switch or right in has_switch:
                        has_switch.add(names[-1])
                continue
        if r < 0.55 and len(operands) >= 2:
            b = rng.choice(operands)
            mb = g.models[b]
            if not _compatible(ma, mb) or (a in has_switch and b in has_switch):
                continue  # "two switches in an Or" is rejected by design
            model = {k: list(v) for k, v in mb.items()}
            for k, v in ma.items():
                if v[0] or k not in model:
                    model[k] = list(v)
            new(model, {"op": "or", "a": a, "b": b})
            if a in has_switch or b in has_switch:
                has_switch.add(names[-1])
        elif r < 0.65:
            flag = rng.random() < 0.6
            model = {k: [v[0] and flag, v[1]] for k, v in ma.items()}
            new(model, {"op": "mask", "a": a, "flag": flag})
            if a in has_switch:
                has_switch.add(names[-1])
        elif r < 0.75:
            statics = sorted({tuple(c for c in k if isinstance(c, str)) for k in ma})
            from sim.script import gen_selection, sel_member

            sel = gen_selection(rng, statics or [("a",)])
            model = {k: [v[0] and sel_member(sel, tuple(c for c in k if isinstance(c, str))), v[1]] for k, v in ma.items()}
            new(model, {"op": "filter", "a": a, "sel": sel})
            if a in has_switch:
                has_switch.add(names[-1])
        elif r < 0.82:
            # a fresh root name, so that the index style table (keyed by static
            # prefix) never clashes: the new prefixes inherit the old styles
            comps = ["e%d" % len(names)]
            for key, (pos, st) in list(g.schema.items()):
                g.schema[tuple(comps) + key] = (tuple(p + 1 for p in pos), st)
            model = {tuple(comps) + k: list(v) for k, v in ma.items()}
            new(model, {"op": "extend", "a": a, "comps": comps})
            if a in has_switch:
                has_switch.add(names[-1])
        elif r < 0.9 and len(operands) >= 2:
            b = rng.choice(operands)
            idx = rng.randrange(2)
            pick = [a, b][idx]
            model = {k: list(v) for k, v in g.models[pick].items()}
            other = g.models[[a, b][1 - idx]]
            if not _compatible(ma, g.models[b]) or a in has_switch or b in has_switch:
                continue
            for k, v in other.items():
                model.setdefault(k, [False, v[1]])
            new(model, {"op": "switch", "idx": idx, "ms": [a, b]})
            has_switch.add(names[-1])
        elif r < 0.95 and ma:
            k = rng.choice(sorted(ma, key=str))
            cut = rng.randint(1, len(k))
            pre = k[:cut]
            if any(isinstance(c, int) for c in pre):
                continue
            model = {kk[cut:]: list(v) for kk, v in ma.items() if kk[:cut] == pre}
            new(model, {"op": "submap", "a": a, "addr": list(pre)})
            terminal.add(names[-1])  # observed only: its prefixes are shifted
        else:
            pre = g.static_path()
            if not g.claim(tuple(pre), "scalar") or _prefix_conflict(ma, pre):
                continue
            v = g.val()
            model = {k: list(x) for k, x in ma.items()}
            model[tuple(pre)] = [True, v]
            new(model, {"op": "atset", "a": a, "addr": pre, "v": v})
            if a in has_switch:
                has_switch.add(names[-1])
    # lookups: every model address plus perturbed (absent) ones
    lookups = {}
    for name in names:
        m = g.models[name]
        ls = set(m)
        for k in list(m):
            if k:
                alt = list(k)
                j = rng.randrange(len(alt))
                alt[j] = (alt[j] + 1) % 3 if isinstance(alt[j], int) else rng.choice([c for c in ["zz", "yy"] if c != alt[j]])
                ls.add(tuple(alt))
                if isinstance(k[-1], str):
                    ls.add(k + ("zz",))
        ls = {a for a in ls if a in m or not _prefix_conflict(m, a) or True}
        lookups[name] = [list(a) for a in sorted(ls, key=str)]
    return {
        "v": 1,
        "pid": "C17",
        "tier": tier,
        "seed": seed,
        "ops": ops,
        "models": {n: [[list(k), v[0], v[1]] for k, v in sorted(m.items(), key=lambda kv: str(kv[0]))] for n, m in g.models.items()},
        "lookups": lookups,
        "replicas": ["concrete", "array", "jit"],
    }


# mask algebra ---------------------------------------------------------------


def gen_script_c19(seed, tier):
    rng = rng_for(seed, "mask")
    nv = [0]

    def val():
        nv[0] += 1
        return float(nv[0]) + 0.5

    vec = rng.random() < 0.4
    n = rng.choice([2, 3]) if vec else 0

    def flag():
        if vec:
            return [rng.random() < 0.5 for _ in range(n)]
        return rng.random() < 0.5

    def value():
        if vec:
            return [val() for _ in range(n)]
        return val()

    pytree = rng.random() < 0.3
    leaves = []
    for _ in range(rng.randint(2, 4)):
        v = value()
        if pytree:
            v = {"p": v, "q": value()}
        leaves.append({"v": v, "f": flag()})
    ops = []
    n_ops = rng.randint(2, 6 if tier == "quick" else 10)
    avail = ["l%d" % i for i in range(len(leaves))]
    for j in range(n_ops):
        k = rng.choice(["or", "xor", "not", "build", "or_n", "xor_n", "maybe", "unmask", "flatten"])
        out = "r%d" % j
        if k in ("or", "xor"):
            ops.append({"op": k, "a": rng.choice(avail), "b": rng.choice(avail), "out": out})
            avail.append(out)
        elif k == "not":
            ops.append({"op": "not", "a": rng.choice(avail), "out": out})
            avail.append(out)
        elif k == "build":
            ops.append({"op": "build", "a": rng.choice(avail), "f": flag(), "out": out})
            avail.append(out)
        elif k in ("or_n", "xor_n"):
            ops.append({"op": k, "as": [rng.choice(avail) for _ in range(rng.randint(2, 3))], "out": out})
            avail.append(out)
        elif k == "maybe":
            v = value()
            if pytree:
                v = {"p": v, "q": value()}
            ops.append({"op": "maybe", "v": v, "f": flag(), "out": out})
            # result may be a raw value or None: only observed, not reused
        elif k == "unmask":
            d = value()
            if pytree:
                d = {"p": d, "q": value()}
            ops.append({"op": "unmask", "a": rng.choice(avail), "d": d, "out": out})
        else:
            ops.append({"op": "flatten", "a": rng.choice(avail), "out": out})
    # "mixed": every flag independently a concrete Python bool or an array (the
    # concrete shortcuts of | ^ ~ meet the array paths in one expression)
    reps = ["concrete", "array", "mixed", "jit"] if not vec else ["array", "jit", "vmap"]
    return {"v": 1, "pid": "C19", "tier": tier, "seed": seed, "vec": n, "pytree": pytree, "leaves": leaves, "ops": ops, "replicas": reps}


def gen_script(seed, pid, tier):
    return gen_script_c17(seed, tier) if pid == "C17" else gen_script_c19(seed, tier)


# ------------------------------------------------------------------- execution


def _viol(out, oracle, pid, step, rep, detail, cls="value"):
    out.append({"oracle": oracle, "props": [pid], "step": step, "replica": rep, "class": cls, "detail": detail[:600]})


def _exec_c17(script):
    import jax
    import jax.numpy as jnp
    import numpy as np

    from genjax import ChoiceMap, Mask
    from genjax import ChoiceMapBuilder as C
    from genjax._src.core.generative.choice_map import ChoiceMapNoValueAtAddress

    from sim.gfisim import sel_build

    viols = []
    fired = {}
    models = {n: {tuple(k): (f, v) for k, f, v in ents} for n, ents in script["models"].items()}
    flags_in = [op["flag"] for op in script["ops"] if op["op"] == "mask"]
    idx_in = [op["idx"] for op in script["ops"] if op["op"] == "switch"]

    def build_all(enc, flags, idxs):
        """returns dict name -> ChoiceMap (may raise)"""
        env = {}
        fi = iter(flags)
        ii = iter(idxs)

        def comp(c):
            if isinstance(c, int) and enc != "concrete":
                return jnp.asarray(c, dtype=jnp.int32)
            return c

        for op in script["ops"]:
            k = op["op"]
            if k in ("kw", "d"):
                def conv(d):
                    return {kk: (conv(v) if isinstance(v, dict) else jnp.asarray(v, dtype=jnp.float32)) for kk, v in d.items()}

                m = ChoiceMap.kw(**conv(op["d"])) if k == "kw" else ChoiceMap.d(conv(op["d"]))
            elif k == "set":
                addr = tuple(comp(c) for c in op["addr"])
                v = jnp.asarray(op["v"], dtype=jnp.float32)
                if op["via"] == "C":
                    m = C[addr].set(v)
                elif op["via"] == "entry":
                    m = ChoiceMap.entry(v, *addr)
                else:
                    m = ChoiceMap.choice(v).extend(*addr)
            elif k == "slice":
                m = ChoiceMap.entry(jnp.asarray(op["vals"], dtype=jnp.float32), *(tuple(op["pre"]) + (slice(None),) + tuple(op["post"])))
            elif k == "arrset":
                idxs_a = jnp.asarray(op["idxs"], dtype=jnp.int32)
                vals = jnp.asarray(op["vals"], dtype=jnp.float32)
                pre, post = tuple(op["pre"]), tuple(op["post"])
                if op["via"] == "array":
                    m = C[pre + (idxs_a,) + post].set(vals)
                else:
                    m = jax.vmap(lambda i, v: C[pre + (i,) + post].set(v))(idxs_a, vals)
            elif k == "or":
                m = env[op["a"]] | env[op["b"]]
            elif k == "mask":
                m = env[op["a"]].mask(next(fi))
            elif k == "filter":
                m = env[op["a"]].filter(sel_build(op["sel"]))
            elif k == "extend":
                m = env[op["a"]].extend(*op["comps"])
            elif k == "switch":
                m = ChoiceMap.switch(next(ii), [env[x] for x in op["ms"]])
            elif k == "submap":
                m = env[op["a"]].get_submap(*op["addr"])
            elif k == "atset":
                m = env[op["a"]].at[tuple(op["addr"])].set(jnp.asarray(op["v"], dtype=jnp.float32))
            else:
                raise ValueError(k)
            env[op["out"]] = m
        return env

    def read(m, addr):
        """-> (present: bool, flag array, value array)"""
        a = tuple(addr)
        key = a[0] if len(a) == 1 else a
        try:
            v = m[key] if a else m.get_value()
        except ChoiceMapNoValueAtAddress:
            return None
        if v is None:
            return None
        if isinstance(v, Mask):
            return (jnp.asarray(v.primal_flag()), jnp.asarray(v.value))
        return (jnp.asarray(True), jnp.asarray(v))

    def observe(env):
        out = {}
        for name, ls in script["lookups"].items():
            for a in ls:
                out[(name, tuple(a))] = read(env[name], a)
        return out

    results = {}
    for rep in script["replicas"]:
        try:
            if rep == "concrete":
                env = build_all("concrete", flags_in, idx_in)
                ob = observe(env)
                statics = {n: (m.static_is_empty(), m) for n, m in env.items()}
            elif rep == "array":
                env = build_all("array", [jnp.asarray(f) for f in flags_in], [jnp.asarray(i, dtype=jnp.int32) for i in idx_in])
                ob = observe(env)
                statics = {n: (m.static_is_empty(), m) for n, m in env.items()}
            else:
                def fn(flags, idxs):
                    env = build_all("array", list(flags), list(idxs))
                    ob = observe(env)
                    return {("%s|%s" % (k[0], json.dumps(list(k[1])))): v for k, v in ob.items() if v is not None}

                jo = jax.jit(fn)([jnp.asarray(f) for f in flags_in], [jnp.asarray(i, dtype=jnp.int32) for i in idx_in])
                ob = {}
                for name, ls in script["lookups"].items():
                    for a in ls:
                        ob[(name, tuple(a))] = jo.get("%s|%s" % (name, json.dumps(list(a))))
                statics = None
            fired[rep] = fired.get(rep, 0) + 1
        except Exception as e:
            _viol(viols, "C17.construction-crash", "C17", 0, rep, "replica %s: construction or lookup raised %s: %s" % (rep, type(e).__name__, str(e)[:300]), "crash")
            continue
        results[rep] = ob
        # against the model
        for (name, a), got in ob.items():
            want = models[name].get(a)
            valid_want = want is not None and want[0]
            if got is None:
                valid_got = False
            else:
                f = np.asarray(got[0])
                valid_got = bool(np.all(f)) if f.shape else bool(f)
            if valid_want != valid_got:
                _viol(viols, "C17.lookup-validity", "C17", 0, rep, "%s[%s]: model says %s, %s replica returns %s" % (name, list(a), "valid %r" % (want[1],) if valid_want else "absent/masked", rep, "valid" if valid_got else "absent/masked"))
            elif valid_want:
                val = np.asarray(got[1])
                if val.shape != () or float(val) != float(want[1]):
                    _viol(viols, "C17.lookup-value", "C17", 0, rep, "%s[%s]: model value %r, %s replica returns %s" % (name, list(a), want[1], rep, val))
        if statics is not None:
            for name, (empty, m) in statics.items():
                has_valid = any(f for f, _ in models[name].values())
                if empty and has_valid:
                    _viol(viols, "C17.static-empty", "C17", 0, rep, "%s is statically empty but the model holds valid entries" % name)
                # get_selection selects exactly the (valid) addresses' static parts
                try:
                    sel = m.get_selection()
                    for a, (f, _) in models[name].items():
                        sp = tuple(c for c in a if isinstance(c, str))
                        if f and rep == "concrete" and not any(isinstance(c, int) for c in a):
                            key = sp[0] if len(sp) == 1 else sp
                            if sp and not sel[key]:
                                _viol(viols, "C17.selection", "C17", 0, rep, "%s.get_selection() does not select %s" % (name, list(sp)))
                except Exception as e:
                    _viol(viols, "C17.selection-crash", "C17", 0, rep, "get_selection raised %s: %s" % (type(e).__name__, str(e)[:200]), "crash")
    import hashlib

    h = hashlib.blake2b(digest_size=16)
    for rep in sorted(results):
        for key in sorted(results[rep], key=str):
            got = results[rep][key]
            h.update(("%s|%s|" % (rep, key)).encode())
            if got is not None:
                h.update(np.asarray(got[0]).tobytes() + np.asarray(got[1]).tobytes())
    script["_digest"] = h.hexdigest()
    return viols, fired, len(script["ops"])


def _exec_c19(script):
    import jax
    import jax.numpy as jnp
    import jax.tree_util as jtu
    import numpy as np

    from genjax import Mask

    viols = []
    fired = {}
    n = script["vec"]

    # reference: (flag, value pytree, defined) as ndarrays.  `defined` marks the
    # positions whose payload the truth tables determine: the payload of an
    # invalid result of | or ^ is unspecified, and ~ may later expose it.
    def rleaf(l):
        f = np.asarray(l["f"], dtype=bool)
        return (f, jtu.tree_map(lambda x: np.asarray(x, dtype=np.float64), l["v"], is_leaf=lambda x: isinstance(x, list)), np.ones_like(f))

    def rsel(f, a, b):
        return jtu.tree_map(lambda x, y: np.where(f, x, y), a, b)

    def r_or(a, b):
        return (a[0] | b[0], rsel(a[0], a[1], b[1]), np.where(a[0], a[2], np.where(b[0], b[2], False)))

    def r_xor(a, b):
        only_a = a[0] & ~b[0]
        only_b = b[0] & ~a[0]
        return (a[0] ^ b[0], rsel(only_a, a[1], b[1]), np.where(only_a, a[2], np.where(only_b, b[2], False)))

    def ref_run():
        env = {"l%d" % i: rleaf(l) for i, l in enumerate(script["leaves"])}
        obs = {}
        for op in script["ops"]:
            k = op["op"]
            if k == "or":
                r = r_or(env[op["a"]], env[op["b"]])
            elif k == "xor":
                r = r_xor(env[op["a"]], env[op["b"]])
            elif k == "not":
                a = env[op["a"]]
                r = (~a[0], a[1], a[2])
            elif k == "build":
                a = env[op["a"]]
                r = (a[0] & np.asarray(op["f"], dtype=bool), a[1], a[2])
            elif k in ("or_n", "xor_n"):
                items = [env[x] for x in op["as"]]
                r = items[0]
                for b in items[1:]:
                    r = r_or(r, b) if k == "or_n" else r_xor(r, b)
            elif k == "maybe":
                r = rleaf({"f": op["f"], "v": op["v"]})
            elif k == "unmask":
                a = env[op["a"]]
                d = jtu.tree_map(lambda x: np.asarray(x, dtype=np.float64), op["d"], is_leaf=lambda x: isinstance(x, list))
                r = (np.ones_like(a[0]), rsel(a[0], a[1], d), np.where(a[0], a[2], True))
            elif k == "flatten":
                r = env[op["a"]]
            env[op["out"]] = r
            obs[op["out"]] = r
        return obs

    want = ref_run()

    def arr(x):
        return jtu.tree_map(lambda y: jnp.asarray(y, dtype=jnp.float32), x, is_leaf=lambda y: isinstance(y, list))

    def real_run(flag_of):
        env = {"l%d" % i: Mask(arr(l["v"]), flag_of(("l", i), l["f"])) for i, l in enumerate(script["leaves"])}
        obs = {}
        for j, op in enumerate(script["ops"]):
            k = op["op"]
            if k == "or":
                r = env[op["a"]] | env[op["b"]]
            elif k == "xor":
                r = env[op["a"]] ^ env[op["b"]]
            elif k == "not":
                r = ~env[op["a"]]
            elif k == "build":
                r = Mask.build(env[op["a"]], flag_of(("b", j), op["f"]))
            elif k == "or_n":
                r = Mask.or_n(*[env[x] for x in op["as"]])
            elif k == "xor_n":
                r = Mask.xor_n(*[env[x] for x in op["as"]])
            elif k == "maybe":
                r = Mask.maybe_mask(arr(op["v"]), flag_of(("m", j), op["f"]))
            elif k == "unmask":
                r = env[op["a"]].unmask(arr(op["d"]))
            elif k == "flatten":
                r = env[op["a"]].flatten()
            if isinstance(r, Mask):
                env[op["out"]] = r
            obs[op["out"]] = r
        return obs

    def onf(r, like):
        """real result -> (flag ndarray, value pytree) or None"""
        if r is None:
            return (np.zeros_like(like[0]), None)
        if isinstance(r, Mask):
            return (np.broadcast_to(np.asarray(r.primal_flag()), like[0].shape).astype(bool), jtu.tree_map(np.asarray, r.value))
        return (np.ones_like(like[0]), jtu.tree_map(np.asarray, r))

    def collect_flags():
        fl = {}
        for i, l in enumerate(script["leaves"]):
            fl[("l", i)] = l["f"]
        for j, op in enumerate(script["ops"]):
            if op["op"] == "build":
                fl[("b", j)] = op["f"]
            if op["op"] == "maybe":
                fl[("m", j)] = op["f"]
        return fl

    allflags = collect_flags()
    for rep in script["replicas"]:
        try:
            if rep == "concrete":
                got = real_run(lambda key, f: bool(f))
                got = {k: onf(v, want[k]) for k, v in got.items()}
            elif rep == "array":
                got = real_run(lambda key, f: jnp.asarray(f, dtype=bool))
                got = {k: onf(v, want[k]) for k, v in got.items()}
            elif rep == "mixed":
                got = real_run(lambda key, f: bool(f) if H(script["seed"], str(key)) % 2 else jnp.asarray(f, dtype=bool))
                got = {k: onf(v, want[k]) for k, v in got.items()}
            elif rep == "jit":
                keys = sorted(allflags, key=str)

                def fn(fs):
                    table = dict(zip(keys, fs))
                    o = real_run(lambda key, f: table[key])
                    return {k: ((v.primal_flag(), v.value) if isinstance(v, Mask) else (None if v is None else (jnp.ones((), bool), v))) for k, v in o.items()}

                jo = jax.jit(fn)([jnp.asarray(allflags[k], dtype=bool) for k in keys])
                got = {}
                for k in want:
                    v = jo.get(k)
                    if v is None:
                        got[k] = (np.zeros_like(want[k][0]), None)
                    else:
                        got[k] = (np.broadcast_to(np.asarray(v[0]), want[k][0].shape).astype(bool), jtu.tree_map(np.asarray, v[1]))
            else:  # vmap over the vector axis with scalar flags inside
                keys = sorted(allflags, key=str)

                def per(fs, leaves_v, aux):
                    table = dict(zip(keys, fs))
                    env = {"l%d" % i: Mask(leaves_v[i], table[("l", i)]) for i in range(len(leaves_v))}
                    obs = {}
                    for j, op in enumerate(script["ops"]):
                        k = op["op"]
                        if k == "or":
                            r = env[op["a"]] | env[op["b"]]
                        elif k == "xor":
                            r = env[op["a"]] ^ env[op["b"]]
                        elif k == "not":
                            r = ~env[op["a"]]
                        elif k == "build":
                            r = Mask.build(env[op["a"]], table[("b", j)])
                        elif k == "or_n":
                            r = Mask.or_n(*[env[x] for x in op["as"]])
                        elif k == "xor_n":
                            r = Mask.xor_n(*[env[x] for x in op["as"]])
                        elif k == "maybe":
                            r = Mask.maybe_mask(aux[j], table[("m", j)])
                        elif k == "unmask":
                            r = env[op["a"]].unmask(aux[j])
                        elif k == "flatten":
                            r = env[op["a"]].flatten()
                        if isinstance(r, Mask):
                            env[op["out"]] = r
                            obs[op["out"]] = (r.primal_flag(), r.value)
                        elif r is None:
                            obs[op["out"]] = None
                        else:
                            obs[op["out"]] = (jnp.ones((), bool), r)
                    return obs

                fs = [jnp.asarray(allflags[k], dtype=bool) for k in keys]
                leaves_v = [arr(l["v"]) for l in script["leaves"]]
                aux = {j: arr(op.get("v", op.get("d"))) for j, op in enumerate(script["ops"]) if op["op"] in ("maybe", "unmask")}
                jo = jax.vmap(per)(fs, leaves_v, aux)
                got = {}
                for k in want:
                    v = jo.get(k)
                    if v is None:
                        got[k] = (np.zeros_like(want[k][0]), None)
                    else:
                        got[k] = (np.asarray(v[0]).astype(bool), jtu.tree_map(np.asarray, v[1]))
            fired[rep] = fired.get(rep, 0) + 1
        except Exception as e:
            _viol(viols, "C19.crash", "C19", 0, rep, "replica %s raised %s: %s" % (rep, type(e).__name__, str(e)[:300]), "crash")
            continue
        for j, op in enumerate(script["ops"]):
            k = op["out"]
            wf, wv, wd = want[k]
            gf, gv = got[k]
            if gf.shape != wf.shape or not np.array_equal(gf, wf):
                _viol(viols, "C19.flag", "C19", j, rep, "op %s (%s): flag %s vs truth table %s [%s replica]" % (k, op["op"], gf.tolist(), wf.tolist(), rep))
                continue
            wf = wf & wd  # compare payloads only where the tables define them
            if not np.any(wf):
                continue
            gl = jtu.tree_leaves(gv)
            wl = jtu.tree_leaves(wv)
            if len(gl) != len(wl):
                _viol(viols, "C19.value-structure", "C19", j, rep, "op %s (%s): value structure differs" % (k, op["op"]))
                continue
            for x, y in zip(gl, wl):
                x, y = np.asarray(x, dtype=np.float64), np.asarray(y, dtype=np.float64)
                if x.shape != y.shape or not np.array_equal(x[wf] if wf.shape else x, y[wf] if wf.shape else y):
                    _viol(viols, "C19.value", "C19", j, rep, "op %s (%s): valid value %s vs truth table %s [%s replica]" % (k, op["op"], x.tolist(), y.tolist(), rep))
                    break
    return viols, fired, len(script["ops"])


def run_session(seed, pid, tier, script=None):
    warnings.filterwarnings("ignore")
    sc = script or gen_script(seed, pid, tier)
    if sc["pid"] == "C17":
        viols, fired, nops = _exec_c17(sc)
    else:
        viols, fired, nops = _exec_c19(sc)
    opseq = tuple(o["op"] for o in sc["ops"])
    return {
        "script": sc,
        "violations": viols,
        "steps": nops * len(sc["replicas"]),
        "ok_steps": nops,
        "rejected": {},
        "agree_checks": nops * (len(sc["replicas"]) - 1),
        "fired": {"replica:" + k: v for k, v in fired.items()},
        "probes": {},
        "signature": H(json.dumps(opseq)),
        "nontrivial": nops >= 3 and ("jit" in fired or "vmap" in fired),
        "digest": sc.pop("_digest", ""),
        "kinds": list(opseq)[:8],
    }
