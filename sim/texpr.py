"""Types, value sampling and the small typed expression language shared by the
program generator, the reference interpreter (NumPy, float64) and the builder
(jax.numpy, float32).  Expressions are deterministic pure maps; nothing in here
knows about GenJAX.

Types (JSON lists):
  ["F", dom]      float scalar, dom in real|pos|prob|ulo|uhi|count
  ["I", n]        int scalar in [0, n)
  ["B"]           bool scalar
  ["V", n, t]     n stacked values of type t (struct of arrays, leading axis n)
  ["T", [t...]]   tuple
  ["N"]           None
  ["M", t]        Mask of t (outputs of mask combinators only)
"""

import math

DOMS = ("real", "pos", "prob", "ulo", "uhi")


class RMask:
    """Reference-side mask value."""

    __slots__ = ("flag", "value")

    def __init__(self, flag, value):
        self.flag = flag
        self.value = value

    def __repr__(self):
        return "RMask(%r, %r)" % (self.flag, self.value)


# ---------------------------------------------------------------- values


def sample_scalar(rng, dom):
    if dom == "real":
        return round(rng.uniform(-2.0, 2.0), 2)
    if dom == "pos":
        return round(rng.uniform(0.5, 2.0), 2)
    if dom == "prob":
        return round(rng.uniform(0.15, 0.85), 2)
    if dom == "ulo":
        return round(rng.uniform(-1.9, -0.2), 2)
    if dom == "uhi":
        return round(rng.uniform(0.6, 2.9), 2)
    if dom == "count":
        return float(rng.randrange(0, 4))
    raise ValueError(dom)


def sample_value(rng, t, oob=False):
    """A JSON-serialisable value of type t (floats, ints, bools, lists, None)."""
    k = t[0]
    if k == "F":
        return sample_scalar(rng, t[1])
    if k == "I":
        if oob:
            return rng.choice([-2, -1, t[1], t[1] + 1])
        return rng.randrange(t[1])
    if k == "B":
        return rng.random() < 0.6
    if k == "V":
        return [sample_value(rng, t[2]) for _ in range(t[1])]
    if k == "T":
        return [sample_value(rng, s) for s in t[1]]
    if k == "N":
        return None
    raise ValueError(t)


def type_eq(a, b):
    return a == b


# ---------------------------------------------------------------- eval


def _sigmoid(xp, x):
    return 1.0 / (1.0 + xp.exp(-x))


def dom_map(xp, dom, x):
    if dom == "real":
        return 3.0 * xp.tanh(x / 3.0)
    if dom == "pos":
        return 0.3 + 2.7 * _sigmoid(xp, x)
    if dom == "prob":
        return 0.1 + 0.8 * _sigmoid(xp, x)
    if dom == "ulo":
        return -2.0 + 1.9 * _sigmoid(xp, x)
    if dom == "uhi":
        return 0.5 + 2.5 * _sigmoid(xp, x)
    raise ValueError(dom)


class Env:
    __slots__ = ("params", "vals", "kw")

    def __init__(self, params, vals, kw=None):
        self.params = params
        self.vals = vals
        self.kw = kw or {}


class Backend:
    """Numeric backend; `np64` for the reference, `jnp32` for the real code."""

    def __init__(self, xp, ftype, itype, is_jax):
        self.xp = xp
        self.ftype = ftype
        self.itype = itype
        self.is_jax = is_jax

    def mask_flag(self, m):
        if isinstance(m, RMask):
            return m.flag
        return m.primal_flag()

    def mask_value(self, m):
        return m.value


def ev(e, env, be):
    xp = be.xp
    op = e[0]
    if op == "p":
        return env.params[e[1]]
    if op == "v":
        return env.vals[e[1]]
    if op == "kw":
        return env.kw[e[1]]
    if op == "c":
        return e[1]
    if op == "ci":
        return e[1]
    if op == "cb":
        return e[1]
    if op == "ca":
        a = xp.array(e[1], dtype=be.ftype)
        return a.reshape(tuple(e[2])) if len(e) > 2 else a
    if op == "cbv":
        a = xp.array(e[1], dtype=bool)
        return a.reshape(tuple(e[2])) if len(e) > 2 else a
    if op == "none":
        return None
    if op in DOMS:
        return dom_map(xp, op, ev(e[1], env, be))
    if op == "f":
        return xp.asarray(ev(e[1], env, be), dtype=be.ftype)
    if op == "add":
        return ev(e[1], env, be) + ev(e[2], env, be)
    if op == "sub":
        return ev(e[1], env, be) - ev(e[2], env, be)
    if op == "mul":
        return ev(e[1], env, be) * ev(e[2], env, be)
    if op == "neg":
        return -ev(e[1], env, be)
    if op == "sum":
        return xp.sum(ev(e[1], env, be))
    if op == "idx":
        return ev(e[1], env, be)[e[2]]
    if op == "bcast":
        return ev(e[1], env, be) * xp.ones((e[2],), dtype=be.ftype)
    if op == "stack":
        return xp.stack([xp.asarray(ev(a, env, be), dtype=be.ftype) for a in e[1]])
    if op == "gt":
        return ev(e[1], env, be) > e[2]
    if op == "not":
        return xp.logical_not(ev(e[1], env, be))
    if op == "where":
        return xp.where(ev(e[1], env, be), ev(e[2], env, be), ev(e[3], env, be))
    if op == "iclip":
        x = ev(e[1], env, be)
        n = e[2]
        y = xp.clip(xp.floor(xp.abs(x) * 1.7320508), 0, n - 1)
        return xp.asarray(y, dtype=be.itype)
    if op == "bi":
        return xp.asarray(ev(e[1], env, be), dtype=be.itype)
    if op == "imin":
        return xp.minimum(ev(e[1], env, be), e[2])
    if op == "unmask":
        m = ev(e[1], env, be)
        d = ev(e[2], env, be)
        flag = be.mask_flag(m)
        if isinstance(m, RMask):
            # reference: an invalid mask's payload is never looked at
            return m.value if flag else d
        import jax.tree_util as jtu

        return jtu.tree_map(lambda a, b: xp.where(flag, a, b), m.value, d)
    if op == "flag":
        return be.mask_flag(ev(e[1], env, be))
    if op == "tup":
        return tuple(ev(a, env, be) for a in e[1])
    if op == "get":
        return ev(e[1], env, be)[e[2]]
    if op == "dict":
        return {k: ev(a, env, be) for k, a in sorted(e[1].items())}
    raise ValueError("unknown expr op %r" % (op,))


def expr_refs(e, acc=None):
    """Set of ('p', i) / ('v', i) / ('kw', name) leaves an expression reads."""
    if acc is None:
        acc = set()
    op = e[0]
    if op in ("p", "v", "kw"):
        acc.add((op, e[1]))
        return acc
    for a in e[1:]:
        if isinstance(a, list) and a and isinstance(a[0], str):
            expr_refs(a, acc)
        elif isinstance(a, list):
            for b in a:
                if isinstance(b, list) and b and isinstance(b[0], str):
                    expr_refs(b, acc)
        elif isinstance(a, dict):
            for b in a.values():
                expr_refs(b, acc)
    return acc


# ---------------------------------------------------------------- densities


def _lgamma(x):
    return math.lgamma(x)


def dist_logpdf(name, v, params):
    """float64 log density / mass of the nine leaf distributions.  Scalars only,
    except 'normalv' (diagonal normal over a vector, summed)."""
    import numpy as np

    if name == "normal":
        mu, sd = params
        z = (v - mu) / sd
        return float(-0.5 * z * z - math.log(sd) - 0.5 * math.log(2 * math.pi))
    if name == "normalv":
        mu, sd = (np.asarray(p, dtype=np.float64) for p in params)
        v = np.asarray(v, dtype=np.float64)
        z = (v - mu) / sd
        return float(np.sum(-0.5 * z * z - np.log(sd) - 0.5 * math.log(2 * math.pi)))
    if name == "uniform":
        lo, hi = params
        if lo <= v <= hi:
            return float(-math.log(hi - lo))
        return -math.inf
    if name == "exponential":
        (rate,) = params
        if v < 0:
            return -math.inf
        return float(math.log(rate) - rate * v)
    if name == "beta":
        a, b = params
        if not (0 < v < 1):
            return -math.inf
        return float(
            (a - 1) * math.log(v)
            + (b - 1) * math.log1p(-v)
            + _lgamma(a + b)
            - _lgamma(a)
            - _lgamma(b)
        )
    if name == "gamma":
        conc, rate = params
        if v <= 0:
            return -math.inf
        return float(
            conc * math.log(rate) + (conc - 1) * math.log(v) - rate * v - _lgamma(conc)
        )
    if name == "flip":
        (p,) = params
        return float(math.log(p) if v else math.log1p(-p))
    if name == "flipv":
        (p,) = params
        p = np.asarray(p, dtype=np.float64)
        v = np.asarray(v, dtype=bool)
        return float(np.sum(np.where(v, np.log(p), np.log1p(-p))))
    if name == "bernoulli":
        (logit,) = params
        # log sigmoid(+-logit)
        s = logit if v else -logit
        return float(-math.log1p(math.exp(-s)) if s > -30 else s)
    if name == "categorical":
        (logits,) = params
        logits = np.asarray(logits, dtype=np.float64)
        m = float(np.max(logits))
        lse = m + math.log(float(np.sum(np.exp(logits - m))))
        k = int(v)
        if k < 0 or k >= len(logits):
            return -math.inf
        return float(logits[k] - lse)
    if name == "poisson":
        (rate,) = params
        k = float(v)
        if k < 0 or k != math.floor(k):
            return -math.inf
        return float(k * math.log(rate) - rate - _lgamma(k + 1))
    raise ValueError(name)


def dist_cdf(name, v, params):
    """CDF for continuous leaves (used by the probability-integral-transform check)."""
    from scipy import stats

    if name == "normal":
        return float(stats.norm.cdf(v, params[0], params[1]))
    if name == "uniform":
        lo, hi = params
        return float(min(1.0, max(0.0, (v - lo) / (hi - lo))))
    if name == "exponential":
        return float(stats.expon.cdf(v, scale=1.0 / params[0]))
    if name == "beta":
        return float(stats.beta.cdf(v, params[0], params[1]))
    if name == "gamma":
        return float(stats.gamma.cdf(v, params[0], scale=1.0 / params[1]))
    raise ValueError(name)


def dist_support(name, params):
    """Finite support of a discrete leaf (None if infinite / continuous)."""
    if name == "flip":
        return [False, True]
    if name == "flipv":
        import itertools

        return [tuple(c) for c in itertools.product([False, True], repeat=len(params[0]))]
    if name == "bernoulli":
        return [0, 1]
    if name == "categorical":
        return list(range(len(params[0])))
    return None


# name -> (input types, kw names or None, output type)
DIST_SIG = {
    "normal": ([["F", "real"], ["F", "pos"]], ["F", "real"]),
    "uniform": ([["F", "ulo"], ["F", "uhi"]], ["F", "real"]),
    "exponential": ([["F", "pos"]], ["F", "real"]),
    "beta": ([["F", "pos"], ["F", "pos"]], ["F", "real"]),
    "gamma": ([["F", "pos"], ["F", "pos"]], ["F", "real"]),
    "flip": ([["F", "prob"]], ["B"]),
    "bernoulli": ([["F", "real"]], ["I", 2]),
    "poisson": ([["F", "pos"]], ["F", "count"]),
    # categorical / normalv are parameterised by a length and built on demand
}

CONTINUOUS = ("normal", "uniform", "exponential", "beta", "gamma", "normalv")
DISCRETE_FINITE = ("flip", "bernoulli", "categorical", "flipv")


def dist_sig(node):
    d = node["d"]
    if d == "categorical":
        return [["V", node["n"], ["F", "real"]]], ["I", node["n"]]
    if d == "flipv":
        n = node["n"]
        return [["V", n, ["F", "prob"]]], ["V", n, ["B"]]
    if d == "normalv":
        n = node["n"]
        return (
            [["V", n, ["F", "real"]], ["V", n, ["F", "pos"]]],
            ["V", n, ["F", "real"]],
        )
    return DIST_SIG[d]


def support_value(rng, node):
    """A value inside the support of leaf `node` for ANY valid parameters."""
    d = node["d"]
    if d == "normal":
        return round(rng.uniform(-2.5, 2.5), 2)
    if d == "normalv":
        return [round(rng.uniform(-2.5, 2.5), 2) for _ in range(node["n"])]
    if d == "uniform":
        return round(rng.uniform(0.05, 0.45), 2)  # ulo<0, uhi>0.5
    if d == "exponential":
        return round(rng.uniform(0.1, 2.5), 2)
    if d == "beta":
        return round(rng.uniform(0.1, 0.9), 2)
    if d == "gamma":
        return round(rng.uniform(0.2, 2.5), 2)
    if d == "flip":
        return rng.random() < 0.5
    if d == "flipv":
        return [rng.random() < 0.5 for _ in range(node["n"])]
    if d == "bernoulli":
        return rng.randrange(2)
    if d == "categorical":
        return rng.randrange(node["n"])
    if d == "poisson":
        return float(rng.randrange(0, 4))
    raise ValueError(d)
