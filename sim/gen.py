"""Seeded generator of program ASTs (pure Python: no JAX, no GenJAX, never looks
at the system under test).  Everything is drawn from the `random.Random` passed
in, so a program is a pure function of the session seed and this file.

Node kinds: dist, static, vmap, repeat, scan, accumulate, reduce, iterate,
iterate_final, masked_iterate, masked_iterate_final, switch, or_else, mix, mask,
dimap, map, contramap, closure, partial.
"""

from sim.ref import SCAN_LIKE, T, V, sig
from sim.texpr import DOMS, sample_scalar, sample_value

LEAF_CODE = {
    "normal": "n",
    "uniform": "u",
    "exponential": "e",
    "beta": "b",
    "gamma": "g",
    "flip": "f",
    "bernoulli": "r",
    "categorical": "c",
    "poisson": "p",
    "normalv": "v",
    "flipv": "q",
}

ALL_LEAVES = [
    "normal",
    "normal",
    "normal",
    "uniform",
    "exponential",
    "beta",
    "gamma",
    "flip",
    "flip",
    "bernoulli",
    "categorical",
    "poisson",
    "normalv",
    "flipv",
]
DISCRETE_LEAVES = ["flip", "flip", "bernoulli", "categorical", "flipv"]

DEFAULT_KINDS = {
    "static": 5,
    "vmap": 3,
    "repeat": 2,
    "scan": 3,
    "accumulate": 1,
    "reduce": 1,
    "iterate": 1,
    "iterate_final": 1,
    "masked_iterate": 1,
    "masked_iterate_final": 1,
    "switch": 3,
    "or_else": 1,
    "mix": 1,
    "mask": 2,
    "dimap": 2,
    "map": 1,
    "contramap": 1,
    "closure": 1,
    "partial": 1,
}


def default_profile():
    return {
        "kinds": dict(DEFAULT_KINDS),
        "root_kinds": None,  # None = same as kinds
        "leaves": list(ALL_LEAVES),
        "max_depth": 3,
        "max_stmts": 3,
        "max_choices": 12,
        "lens": [1, 2, 2, 3, 3],
        "addr_styles": {"str": 6, "tuple": 2, "mixed": 0},
        "nest": 0.45,
        "kwcall": 0.5,
        "hetero_switch": 0.3,
        "static_kw": 0.15,
    }


class G:
    """Generation state for one program."""

    def __init__(self, rng, profile):
        self.rng = rng
        self.P = profile
        self.choices = 0  # scalar choices so far (with multiplicity)
        self.uid = 0

    def fresh(self, base):
        self.uid += 1
        return "%s%d" % (base, self.uid)


def wchoice(rng, weights):
    items = sorted((k, w) for k, w in weights.items() if w > 0)
    tot = sum(w for _, w in items)
    r = rng.random() * tot
    for k, w in items:
        r -= w
        if r < 0:
            return k
    return items[-1][0]


# ---------------------------------------------------------------- synth


def _nested(rng, t):
    """nested Python lists for V..V of a scalar type; returns (lists, base type)."""
    if t[0] == "V":
        subs = [_nested(rng, t[2]) for _ in range(t[1])]
        base = subs[0][1] if subs else _base_of(t[2])
        return [s[0] for s in subs], base
    if t[0] == "F":
        return sample_scalar(rng, t[1]), t
    if t[0] == "B":
        return rng.random() < 0.6, t
    if t[0] == "I":
        return sample_scalar(rng, "real"), t
    raise ValueError(t)


def _base_of(t):
    while t[0] == "V":
        t = t[2]
    return t


def lit(rng, t):
    """A literal expression of type t."""
    k = t[0]
    if k == "F":
        return ["c", sample_scalar(rng, t[1])]
    if k == "I":
        return ["ci", rng.randrange(t[1])]
    if k == "B":
        return ["cb", rng.random() < 0.5]
    if k == "N":
        return ["none"]
    if k == "T":
        return ["tup", [lit(rng, s) for s in t[1]]]
    if k == "V":
        n, s = t[1], t[2]
        base = _base_of(s)
        if base[0] == "T":
            if s[0] == "T":
                return ["tup", [lit(rng, V(n, u)) for u in s[1]]]
            raise ValueError("no literal for %r" % (t,))
        if base[0] == "N":
            return ["none"]
        vals, base = _nested(rng, t)
        shape = []
        u = t
        while u[0] == "V":
            shape.append(u[1])
            u = u[2]
        # an empty nested list loses the trailing dimensions: state the shape
        extra = [shape] if 0 in shape and len(shape) > 1 else []
        if base[0] == "F":
            return ["ca", vals] + extra
        if base[0] == "B":
            return ["cbv", vals] + extra
        if base[0] == "I":
            return ["iclip", ["ca", vals] + extra, base[1]]
    raise ValueError("no literal for %r" % (t,))


def float_sources(env):
    """(expr, dom or None) candidates convertible to a float scalar."""
    out = []
    for e, t in env:
        out += _as_float(e, t)
    return out


def _as_float(e, t, depth=0):
    k = t[0]
    if k == "F":
        return [(e, t[1])]
    if k in ("B", "I"):
        return [(["f", e], None)]
    if k == "V":
        n, s = t[1], t[2]
        if n == 0:
            return []
        if s[0] == "F":
            return [(["sum", e], None), (["idx", e, n - 1], s[1]), (["idx", e, 0], s[1])]
        if s[0] in ("B", "I"):
            return [(["sum", ["f", e]], None)]
        return []
    if k == "M" and depth < 2:
        inner = t[1]
        try:
            d = _default_lit(inner)
        except ValueError:
            return []
        return _as_float(["unmask", e, d], inner, depth + 1)
    if k == "T" and depth < 2:
        out = []
        for i, s in enumerate(t[1]):
            out += _as_float(["get", e, i], s, depth + 1)
        return out
    return []


def _default_lit(t):
    k = t[0]
    if k == "F":
        return ["c", {"real": 0.25, "pos": 1.25, "prob": 0.5, "ulo": -1.0, "uhi": 1.5, "count": 1.0}[t[1]]]
    if k == "I":
        return ["ci", 0]
    if k == "B":
        return ["cb", False]
    if k == "T":
        return ["tup", [_default_lit(s) for s in t[1]]]
    if k == "V" and t[2][0] == "F":
        return ["ca", [0.5] * t[1]]
    raise ValueError(t)


def synth(g, env, t, passthrough=0.3):
    """An expression of type t over env = [(expr, type), ...]."""
    rng = g.rng
    k = t[0]
    if k == "N":
        return ["none"]
    if k == "T":
        return ["tup", [synth(g, env, s, passthrough) for s in t[1]]]
    if k == "F":
        dom = t[1]
        if dom == "count":
            dom = "pos"
        srcs = float_sources(env)
        ch = g.P.get("chain", 0.0)
        if ch > 0 and env and rng.random() < ch:
            # dependency chains: read the most recent value (a -> f(a) -> g(f(a)))
            last = float_sources(env[-1:])
            if last:
                srcs = last
        if not srcs or rng.random() < 0.2:
            return lit(rng, ["F", dom])
        e, d = srcs[rng.randrange(len(srcs))]
        if d == dom and rng.random() < passthrough:
            return e
        r = rng.random()
        if r < 0.3 and len(srcs) > 1:
            e2, _ = srcs[rng.randrange(len(srcs))]
            e = [rng.choice(["add", "mul", "sub"]), e, e2]
        elif r < 0.5:
            e = [rng.choice(["add", "mul"]), e, ["c", sample_scalar(rng, "real")]]
        return [dom, e]
    if k == "I":
        n = t[1]
        cands = [(e, s) for e, s in env if s[0] in ("I", "B", "F")]
        if not cands or rng.random() < 0.25:
            return ["ci", rng.randrange(n)]
        e, s = cands[rng.randrange(len(cands))]
        if s[0] == "I":
            return e if s[1] <= n else ["imin", e, n - 1]
        if s[0] == "B":
            return ["bi", e] if n >= 2 else ["ci", 0]
        return ["iclip", e, n]
    if k == "B":
        cands = [(e, s) for e, s in env if s[0] == "B"]
        fl = float_sources(env)
        r = rng.random()
        if cands and r < 0.4:
            e, _ = cands[rng.randrange(len(cands))]
            return e if rng.random() < 0.7 else ["not", e]
        if fl and r < 0.8:
            e, _ = fl[rng.randrange(len(fl))]
            return ["gt", e, round(rng.uniform(-1, 1), 2) + 0.003]
        return ["cb", rng.random() < 0.6]
    if k == "V":
        n, s = t[1], t[2]
        if s[0] == "T":
            return ["tup", [synth(g, env, V(n, u), passthrough) for u in s[1]]]
        if s[0] == "N":
            return ["none"]
        same = [(e, u) for e, u in env if u[0] == "V" and u[1] == n and u[2][0] == s[0]]
        if s[0] == "F":
            dom = s[1] if s[1] != "count" else "pos"
            r = rng.random()
            if same and r < 0.45:
                e, u = same[rng.randrange(len(same))]
                if u[2][1] == dom and rng.random() < passthrough:
                    return e
                return [dom, e]
            fl = float_sources(env)
            if fl and r < 0.65 and n > 0:
                e, _ = fl[rng.randrange(len(fl))]
                return [dom, ["bcast", e, n]]
            if fl and r < 0.75 and 0 < n <= 3:
                return [dom, ["stack", [fl[rng.randrange(len(fl))][0] for _ in range(n)]]]
            return lit(rng, ["V", n, ["F", dom]])
        if s[0] == "B":
            vf = [(e, u) for e, u in env if u[0] == "V" and u[1] == n and u[2][0] == "F"]
            r = rng.random()
            if same and r < 0.4:
                return same[rng.randrange(len(same))][0]
            if vf and r < 0.7:
                return ["gt", vf[rng.randrange(len(vf))][0], round(rng.uniform(-1, 1), 2) + 0.003]
            return lit(rng, t)
        if s[0] == "I":
            exact = [(e, u) for e, u in same if u[2][1] <= s[1]]
            if exact and rng.random() < 0.5:
                return exact[rng.randrange(len(exact))][0]
            vf = [(e, u) for e, u in env if u[0] == "V" and u[1] == n and u[2][0] == "F"]
            if vf and rng.random() < 0.6:
                return ["iclip", vf[rng.randrange(len(vf))][0], s[1]]
            return lit(rng, t)
        exact = [(e, u) for e, u in env if u == t]
        if exact and rng.random() < 0.6:
            return exact[rng.randrange(len(exact))][0]
        return lit(rng, t)
    raise ValueError("cannot synth %r" % (t,))


# ----------------------------------------------------------------- nodes


def gen_leaf(g, pool=None):
    rng = g.rng
    d = rng.choice(pool or g.P["leaves"])
    node = {"k": "dist", "d": d}
    if d in ("categorical", "normalv", "flipv"):
        node["n"] = rng.choice([2, 3])
    return node


def rand_ptypes(g, kmax=2):
    rng = g.rng
    n = rng.choice([0, 1, 1, 2, 2][: 2 * kmax + 1])
    out = []
    for _ in range(n):
        r = rng.random()
        if rng.random() < g.P.get("vec_param", 0.0):
            out.append(V(rng.choice([2, 3]), ["F", "real"]))
        elif r < 0.55:
            out.append(["F", "real"])
        elif r < 0.7:
            out.append(["F", rng.choice(["pos", "prob"])])
        elif r < 0.82:
            out.append(V(rng.choice([2, 3]), ["F", "real"]))
        elif r < 0.92:
            out.append(["B"])
        else:
            out.append(["I", rng.choice([2, 3])])
    return out


def rand_out(g):
    r = g.rng.random()
    if r < 0.6:
        return ["F", "real"]
    if r < 0.7:
        return T(["F", "real"], ["F", "real"])
    if r < 0.8:
        return V(g.rng.choice([2, 3]), ["F", "real"])
    if r < 0.9:
        return ["B"]
    return ["F", "pos"]


def mult(node):
    """How many scalar leaf sites one call of node makes at most."""
    k = node["k"]
    if k == "dist":
        return node.get("n", 1) if node["d"] in ("normalv", "flipv") else 1
    if k == "static":
        return sum(mult(s["callee"]) for s in node["stmts"])
    if k in ("vmap", "repeat") or k in SCAN_LIKE:
        return node["n"] * mult(node["inner"])
    if k in ("switch",):
        return max(mult(b) for b in node["branches"])
    if k == "mix":
        return 1 + max(mult(b) for b in node["branches"])
    if k == "or_else":
        return max(mult(node["a"]), mult(node["b"]))
    return mult(node["inner"])


def gen_static(g, depth, ptypes=None, out=None, budget=None, kw_ok=False, ret_from_dists=False):
    rng = g.rng
    P = g.P
    if ptypes is None:
        ptypes = rand_ptypes(g)
    if budget is None:
        budget = P["max_choices"]
    style = wchoice(rng, P["addr_styles"])
    env = [(["p", i], t) for i, t in enumerate(ptypes)]
    kwp = {}
    if kw_ok and rng.random() < 1.0:
        kwp = {"z": ["F", "real"]}
        env.append((["kw", "z"], ["F", "real"]))
    nst = rng.randint(1, P["max_stmts"])
    if rng.random() < P.get("empty_static", 0.06):
        nst = 0  # a deterministic generative function (no choices), as in the docs' `inc` kernels
    stmts = []
    used = set()
    # visit order must not coincide with alphabetical order: JAX rebuilds dicts
    # (StaticTrace.subtraces) with sorted keys at every pytree boundary
    letters = rng.sample("abcdxyzw", 8)
    if getattr(g, "letters", None):
        letters = g.letters
        g.letters = None  # only the branch's own top-level function shares names
    group = g.fresh("g")
    pending = None  # (switch node, statement index of the choice that selects its branch)
    cs = P.get("choice_switch", 0.0)
    c3 = P.get("chain3", 0.0)
    tail = False  # a consumer of the chain3 function's value is still to come
    for j in range(nst + 2):
        if budget <= 0 or (j >= nst and pending is None and not tail):
            break
        forced_index = None
        forced_arg = None
        if tail and pending is None:
            tail = False
            callee = {"k": "dist", "d": "normal"}
            forced_arg = ["real", float_sources(env[-1:])[0][0]]
        elif pending is not None:
            # `i ~ categorical(...) @ a; switch(...)(i, ...) @ b`: a branch index
            # that is itself a random choice (what genjax.mix does)
            callee, forced_index = pending
            pending = None
        elif cs > 0 and depth > 0 and budget >= 3 and rng.random() < cs:
            sw = gen_any(g, max(depth - 1, 1), budget=budget - 1, kinds={"switch": 1})
            callee = {"k": "dist", "d": "categorical", "n": len(sw["branches"])}
            pending = (sw, len(stmts))
        elif c3 > 0 and budget >= 2 and stmts and float_sources(env[-1:]) and rng.random() < c3:
            # a -> s = f(a) @ "s" -> ...: a nested function whose return value is a
            # deterministic function of its argument (plus its own choices)
            callee = gen_static(g, 0, ptypes=[["F", "real"]], out=["F", "real"], budget=min(budget, 2))
            callee["ret"] = ["real", ["add", ["p", 0], callee["ret"]]]
            forced_arg = ["real", float_sources(env[-1:])[0][0]]
            tail = True
        elif depth > 0 and rng.random() < P["nest"]:
            callee = gen_any(g, depth - 1, budget=budget)
        else:
            callee = gen_leaf(g)
        m = mult(callee)
        if m > budget and stmts:
            break
        budget -= m
        ins, cout = sig(callee)
        st = {"callee": callee}
        if (
            callee["k"] == "dist"
            and callee["d"] in ("bernoulli", "categorical")
        ):
            # logits= keyword invocation (the documented non-deprecated form)
            st["args"] = []
            st["kw"] = {"logits": synth(g, env, ins[0])}
        elif callee["k"] == "static" and callee.get("kwp"):
            st["args"] = [synth(g, env, t) for t in ins]
            st["kw"] = {n: synth(g, env, t) for n, t in sorted(callee["kwp"].items())}
        else:
            st["args"] = [synth(g, env, t) for t in ins]
        if forced_index is not None and forced_index < len(stmts) and stmts[forced_index]["callee"].get("d") == "categorical":
            st["args"][0] = ["v", forced_index]
        if forced_arg is not None:
            st["args"][0] = forced_arg
        base = letters[j % 8]
        if callee["k"] == "dist":
            name = base + LEAF_CODE[callee["d"]] + str(callee.get("n", ""))
        else:
            name = g.fresh(base + "_")
        while name in used:
            name = name + "_"
        used.add(name)
        if style == "str":
            st["addr"] = [name]
        elif style == "tuple":
            st["addr"] = [group, name]
        elif style == "deep":
            # three components; call sites share one- and two-component prefixes
            st["addr"] = [group, "%ss%d" % (group, j % 2), name]
        else:  # mixed
            st["addr"] = [name] if j % 2 == 0 else [group, name]
        stmts.append(st)
        env.append((["v", len(stmts) - 1], cout))
    if out is None:
        out = rand_out(g)
    ret_env = env
    if ret_from_dists:
        # index-editable scan kernels: the outputs read distribution call sites only
        ret_env = [
            (["v", j], sig(s["callee"])[1]) for j, s in enumerate(stmts) if s["callee"]["k"] == "dist"
        ]
    node = {
        "k": "static",
        "ptypes": ptypes,
        "stmts": stmts,
        "ret": synth(g, ret_env, out, passthrough=0.5),
        "out": out,
    }
    if kwp:
        node["kwp"] = kwp
    return node


def liftable(t):
    k = t[0]
    if k in ("F", "B", "I", "V"):
        return True
    if k == "T":
        return bool(t[1]) and all(liftable(s) for s in t[1])
    return False


def coerce_out(g, node, want):
    """Wrap node in `map` so that its output type is `want`."""
    _, out = sig(node)
    if out == want:
        return node
    env = [(["v", 0], out)]
    return {"k": "map", "inner": node, "post": synth(g, env, want, passthrough=0.6), "out": want}


def gen_any(g, depth, budget=None, kinds=None):
    rng = g.rng
    P = g.P
    if budget is None:
        budget = P["max_choices"]
    kinds = dict(kinds or P["kinds"])
    if depth <= 0:
        kinds = {k: w for k, w in kinds.items() if k in ("static",)}
        if not kinds or rng.random() < 0.4:
            return gen_leaf(g)
    k = wchoice(rng, kinds)
    n = rng.choice(P["lens"])
    d1 = depth - 1

    def sub(b=None):
        return gen_any(g, d1, budget=b if b is not None else budget) if d1 >= 0 else gen_leaf(g)

    if k == "static":
        return gen_static(g, d1, budget=budget, kw_ok=False)
    vsi = P.get("vec_static_inner", 0.0)
    if k == "vmap":
        per = max(1, budget // max(n, 1))
        vli = P.get("vec_leaf_inner", 0.0)
        if vli > 0 and rng.random() < vli:
            inner = gen_leaf(g)  # a distribution mapped directly (normal.vmap(...) @ "v")
        else:
            inner = gen_static(g, d1, budget=per) if (vsi > 0 and rng.random() < vsi) else sub(per)
        if P.get("kernel_normal", 0.0) > 0 and inner["k"] == "static" and rng.random() < P["kernel_normal"]:
            # a normal call site in the kernel (something a normal proposal can rejuvenate)
            pre_ = inner["stmts"][-1]["addr"][:-1] if inner["stmts"] else []
            fs = float_sources([(["p", i], t) for i, t in enumerate(inner["ptypes"])])
            mu = ["real", fs[rng.randrange(len(fs))][0]] if fs else ["c", 0.3]
            if not any(s_["addr"] == pre_ + ["zn"] for s_ in inner["stmts"]):
                inner["stmts"].append({"callee": {"k": "dist", "d": "normal"}, "args": [mu, ["c", round(rng.uniform(0.5, 1.5), 2)]], "addr": pre_ + ["zn"]})
        ins, _ = sig(inner)
        if not any(liftable(t) for t in ins):
            # give it something to map over
            inner = {
                "k": "contramap",
                "inner": inner,
                "ptypes": [["F", "real"]] ,
                "pre": [synth(g, [(["p", 0], ["F", "real"])], t) for t in ins],
            }
            ins, _ = sig(inner)
        axes = [0 if (liftable(t) and rng.random() < 0.65) else None for t in ins]
        if 0 not in axes:
            cand = [i for i, t in enumerate(ins) if liftable(t)]
            axes[rng.choice(cand)] = 0
        # a vector argument may also be mapped over its second axis (in_axes=1)
        for i, t in enumerate(ins):
            if axes[i] == 0 and t[0] == "V" and t[2][0] in ("F", "B", "I") and n > 0 and rng.random() < P.get("axis1", 0.35):
                axes[i] = 1
        return {"k": "vmap", "inner": inner, "axes": axes, "n": n}
    if k == "repeat":
        per = max(1, budget // max(n, 1))
        vli = P.get("vec_leaf_inner", 0.0)
        if vli > 0 and rng.random() < vli:
            inner = gen_leaf(g)
        else:
            inner = gen_static(g, d1, budget=per) if (vsi > 0 and rng.random() < vsi) else sub(per)
        return {"k": "repeat", "inner": inner, "n": max(n, 1)}
    if k in SCAN_LIKE:
        n = max(n, 1)
        per = max(1, budget // n)
        ct = ["F", "real"] if rng.random() < 0.75 else T(["F", "real"], ["F", "real"])
        if k == "scan":
            xt = rng.choice([["F", "real"], ["F", "real"], ["N"], ["B"]])
            yt = rng.choice([["F", "real"], ["F", "real"], ["N"], ["B"]])
            editable = rng.random() < P.get("scan_editable", 0.3)
            inner = gen_static(g, d1 if not editable else min(d1, 0), ptypes=[ct, xt], out=T(ct, yt), budget=per, ret_from_dists=editable)
            return {"k": "scan", "inner": inner, "n": n, "use_n": xt == ["N"] or rng.random() < 0.3}
        if k in ("accumulate", "reduce"):
            xt = rng.choice([["F", "real"], ["F", "real"], ["B"]])
            inner = gen_static(g, d1, ptypes=[ct, xt], out=ct, budget=per)
            return {"k": k, "inner": inner, "n": n}
        inner = gen_static(g, d1, ptypes=[ct], out=ct, budget=per)
        return {"k": k, "inner": inner, "n": n}
    if k in ("switch", "mix"):
        nb = rng.choice([2, 2, 3])
        want = rand_out(g)
        brs = []
        sn = P.get("shared_names", 0.0)
        shared = sn > 0 and rng.random() < sn
        uid0, letters0 = g.uid, rng.sample("abcdxyzw", 8) if shared else None
        uid_max = uid0
        for _ in range(nb):
            if shared:
                # branches draw their call-site names from the same sequence: the
                # same group / nested-call address appears in several branches,
                # with different addresses beneath it
                g.uid = uid0
                g.letters = letters0
            b = sub()
            if shared:
                g.letters = None
                uid_max = max(uid_max, g.uid)
                g.uid = uid_max
            w = want
            if k == "switch" and want[0] == "F" and rng.random() < P["hetero_switch"]:
                w = rng.choice([["B"], ["I", 3], want])
            brs.append(coerce_out(g, b, w))
        return {"k": k, "branches": brs, "out": want}
    if k == "or_else":
        want = rand_out(g)
        return {
            "k": "or_else",
            "a": coerce_out(g, sub(), want),
            "b": coerce_out(g, sub(), want),
            "out": want,
        }
    if k == "mask":
        return {"k": "mask", "inner": sub()}
    if k in ("dimap", "contramap"):
        inner = sub()
        ins, out = sig(inner)
        ptypes = rand_ptypes(g) or [["F", "real"]]
        env = [(["p", i], t) for i, t in enumerate(ptypes)]
        pre = [synth(g, env, t, passthrough=0.6) for t in ins]
        if k == "contramap":
            return {"k": "contramap", "inner": inner, "ptypes": ptypes, "pre": pre}
        want = rand_out(g)
        env2 = env + [(["v", 0], out)] + [(["v", 1 + i], t) for i, t in enumerate(ins)]
        post = synth(g, env2, want, passthrough=0.6)
        xf = float_sources([(["v", 1 + i], t) for i, t in enumerate(ins)])
        if want[0] == "F" and xf and rng.random() < P.get("post_xformed", 0.5):
            # make sure post really reads the transformed arguments (its 2nd parameter)
            dom = want[1] if want[1] != "count" else "pos"
            post = [dom, ["add", post, xf[rng.randrange(len(xf))][0]]]
        pd = P.get("post_discarded", 0.0)
        if pd > 0 and want[0] == "F" and rng.random() < pd:
            # an outer argument that `pre` drops but `post` reads (through `args`)
            ptypes = list(ptypes) + [["F", "real"]]
            dom = want[1] if want[1] != "count" else "pos"
            post = [dom, ["add", post, ["p", len(ptypes) - 1]]]
        return {
            "k": "dimap",
            "inner": inner,
            "ptypes": ptypes,
            "pre": pre,
            "post": post,
            "out": want,
        }
    if k == "map":
        inner = sub()
        _, out = sig(inner)
        want = rand_out(g)
        return {
            "k": "map",
            "inner": inner,
            "post": synth(g, [(["v", 0], out)], want, passthrough=0.6),
            "out": want,
        }
    if k in ("closure", "partial"):
        pt = rand_ptypes(g) or [["F", "real"]]
        if not pt:
            pt = [["F", "real"]]
        use_kw = k == "closure" and rng.random() < P["static_kw"] * 3
        inner = gen_static(g, d1, ptypes=pt, budget=budget, kw_ok=use_kw)
        s = rng.randint(1, len(pt))
        node = {
            "k": k,
            "inner": inner,
            "stored": [sample_value(rng, t) for t in pt[:s]],
        }
        if inner.get("kwp"):
            node["kwvals"] = {n: sample_value(rng, t) for n, t in inner["kwp"].items()}
        return node
    raise ValueError(k)


def gen_program(rng, profile):
    g = G(rng, profile)
    depth = rng.randint(profile.get("min_depth", 1), profile["max_depth"])
    kinds = profile.get("root_kinds") or profile["kinds"]
    node = gen_any(g, depth, kinds=kinds)
    return node


def sample_args(rng, node, oob=False):
    ins, _ = sig(node)
    return [sample_value(rng, t, oob=oob and t[0] == "I") for t in ins]


# ------------------------------------------------------------- features
#
# Structural circumstances under which the pinned tree is known to misbehave
# (each is documented in DESIGN.md 5 / known_findings.json).  Profiles list the
# features they allow; programs with other features are rejected and redrawn,
# so that ordinary exploration is not drowned by a known finding, while the
# dedicated witness replays and "quarantine" sessions keep exercising them.


def _first_components(node):
    from sim.ref import universe

    return [a[0] if a else None for a, _ in universe(node)]


def _index_sets(node):
    """set of leading int indices used by a branch (empty if not indexed)."""
    return {c for c in _first_components(node) if isinstance(c, int)}


def features(node, under_switch=False, acc=None, rootish=True):
    from sim.ref import inner_nodes

    if acc is None:
        acc = set()
    k = node["k"]
    if k == "masked_iterate_final":
        acc.add("mif")
    if k == "mask" and under_switch:
        acc.add("mask_in_switch")
    if k in ("mask", "masked_iterate", "masked_iterate_final"):
        # a mask below a mask: with concrete flags the inner trace's choice map
        # changes *structure* when its flag flips, and MaskCombinator.edit's
        # tree_map over (new, old) inner traces fails
        from sim.script import has_kind as _hk

        if any(_hk(c, ("mask", "masked_iterate", "masked_iterate_final")) for c in inner_nodes(node)):
            acc.add("mask_nested")
    if k in ("switch", "or_else", "mix"):
        brs = node["branches"] if k != "or_else" else [node["a"], node["b"]]
        firsts = [_first_components(b) for b in brs]

        def vec_rooted(b):
            while b["k"] in ("map", "dimap", "contramap", "partial", "closure", "mask"):
                b = b["inner"]
            return b["k"] in ("vmap", "repeat") or b["k"] in SCAN_LIKE

        # a vector-rooted branch looks constraints / choices up by index even if it
        # makes no choices itself (deterministic kernel)
        has_idx = [any(isinstance(c, int) for c in f) or vec_rooted(b) for f, b in zip(firsts, brs)]
        has_non = [any(not isinstance(c, int) for c in f) for f in firsts]
        if any(has_idx) and (any(has_non) or not all(has_idx)):
            acc.add("switch_mixed_index")
        sets = [frozenset(_index_sets(b)) for b in brs if _index_sets(b)]
        if len(set(sets)) > 1:
            acc.add("switch_len")
        from sim.ref import universe as _uni

        shapes = {}
        for b in brs:
            for a, leaf in _uni(b):
                shp = leaf.get("n") if leaf["d"] in ("normalv", "flipv") else None
                if a in shapes and shapes[a] != shp:
                    acc.add("switch_shape_conflict")
                shapes.setdefault(a, shp)
        under_switch = True
    if k == "static":
        styles = {len(s["addr"]) > 1 for s in node["stmts"]}
        if len(styles) > 1:
            acc.add("mixed_addr")
    # a closure hands back the wrapped function's trace (stored arguments in
    # get_args()) and its call syntax means "simulate": it is only meaningful as
    # the root of a program here
    for c in inner_nodes(node):
        if c["k"] == "closure":
            acc.add("closure_nested")
    for c in inner_nodes(node):
        features(c, under_switch, acc, rootish and k in ("vmap", "repeat"))
    return acc


def cost(node):
    """Rough tracing-cost model (eager GenJAX re-traces the whole program on every
    operation; switch-like nodes under vector combinators are the expensive part)."""
    from sim.ref import inner_nodes

    k = node["k"]
    if k == "dist":
        return 1.0
    cs = [cost(c) for c in inner_nodes(node)]
    if k == "static":
        return 1.0 + sum(cs)
    if k in ("vmap", "repeat") or k in SCAN_LIKE:
        return 2.0 + 2.0 * sum(cs)
    if k in ("switch", "or_else", "mix"):
        return 2.0 + 1.5 * sum(cs)
    return 1.0 + sum(cs)


def gen_program_filtered(rng, profile, allowed=()):
    """Draw programs until one has no feature outside `allowed` and fits the
    tracing-cost budget of the profile."""
    budget = profile.get("max_cost", 26.0)
    for _ in range(400):
        node = gen_program(rng, profile)
        if features(node) <= set(allowed) and cost(node) <= budget:
            return node
    raise RuntimeError("generator could not satisfy feature filter")
