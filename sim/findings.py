"""Known findings: genuine defects of the pinned tree that are recorded rather
than repaired (DESIGN 2.10).  /verif/known_findings.json is read, never written
at run time.  A finding is identified by a *signature*: the oracle ids it trips
plus a structural predicate on the (minimised) script and the violation, so
that a different violation of the same property is still reported.
"""

import json
import os
import re

ROOT = os.path.dirname(os.path.dirname(os.path.abspath(__file__)))


def _kinds(script):
    from sim.ref import kinds

    if "programs" not in script:
        return []
    return kinds(script["programs"][0])


def _has(script, *ks):
    kk = _kinds(script)
    return any(k in kk for k in ks)


def _step(script, v):
    st = script["steps"]
    i = v["step"]
    return st[i] if 0 <= i < len(st) else {}


def _perts(script, v):
    for r in script["replicas"]:
        if r["id"] == v["replica"]:
            p = r["perts"]
            return p[v["step"]] if v["step"] < len(p) else []
    return []


def _edit_chain_ops(script, v):
    """ops of the steps that produced (transitively) the trace the violating step works on."""
    steps = script["steps"]
    by_out = {s["out"]: s for s in steps if "out" in s}
    st = _step(script, v)
    seen = []
    cur = st
    for _ in range(64):
        seen.append(cur.get("op"))
        nxt = cur.get("src") or cur.get("of")
        if nxt is None or nxt not in by_out:
            break
        cur = by_out[nxt]
    return seen


# ---- predicates (name -> fn(script, violation) -> bool) ----------------------


def p_scan_regen_vector_request(script, v):
    # Scan.edit_regenerate returns VectorRequest, which Scan.edit cannot apply;
    # the undone edit must be a Regenerate (directly, or as the sub-request of an
    # IndexRequest / StaticRequest) on a program that contains a scan-like node
    if not _has(script, "scan", "accumulate", "reduce", "iterate", "iterate_final"):
        return False
    steps = script["steps"]
    by_out = {s["out"]: s for s in steps if "out" in s}
    st = _step(script, v)
    tgt = by_out.get(st.get("of"))
    for _ in range(16):  # undo of undo ... of a regenerate
        if tgt is None:
            return False
        if tgt.get("op") == "undo":
            tgt = by_out.get(tgt.get("of"))
            continue
        break
    if tgt is None:
        return False
    if tgt.get("op") == "regenerate":
        return True
    if tgt.get("op") == "index_edit" and tgt.get("sub") == "regenerate":
        return True
    if tgt.get("op") == "static_edit" and any(e.get("kind") == "regenerate" for e in tgt.get("subs", [])):
        return True
    return False


def p_mask_concrete_false_assess(script, v):
    # a concretely-False mask trace has an empty choice map; assess then cannot run the inner function
    d = v["detail"]
    return _has(script, "mask") and ("MissingAddress" in d or "NoneType" in d or "None" in d)


def p_switch_pyint_assess(script, v):
    # Python-int switch index: get_choices() is the selected branch's map only,
    # while assess traces every branch -> MissingAddress for the other branches
    return _has(script, "switch") and "MissingAddress" in v["detail"]


def p_zero_len_vmap_assess(script, v):
    def zero(node):
        from sim.ref import inner_nodes

        if node["k"] in ("vmap", "repeat") and node.get("n") == 0:
            return True
        return any(zero(c) for c in inner_nodes(node))

    return zero(script["programs"][0])


def p_switch_bwd_request(script, v):
    # Switch.edit returns branch 0's backward request ("totally wrong" per the source)
    return _has(script, "switch", "or_else", "mix") and any(
        o == "update" for o in _edit_chain_ops(script, v)
    )


def p_static_site_empty_callee(script, v):
    # A call that made no choices - a concretely masked-off mask, a zero-length
    # map, a function without choices - leaves an empty (sub-)map in the trace's
    # own choice map.  As a static call site the assess handler raises
    # MissingAddress for it; as a mask whose concrete False flag became an array
    # at a pytree boundary (vmap slicing, jit identity) MaskCombinator.assess can
    # no longer tell it is masked off and assesses the inner function against
    # the empty map.
    from sim.ref import inner_nodes, universe
    from sim.script import unwrap

    def may_be_empty(c):
        c = unwrap(c)
        if c["k"] == "mask":
            return True
        if c["k"] in ("vmap", "repeat") and c.get("n") == 0:
            return True
        return not universe(c)

    def walk(node):
        if node["k"] == "mask":
            return True
        if node["k"] == "static" and any(may_be_empty(s["callee"]) for s in node["stmts"]):
            return True
        return any(walk(c) for c in inner_nodes(node))

    d = v["detail"]
    return ("MissingAddress" in d or "NoneType" in d) and walk(script["programs"][0])


def p_index_through_scalar_siblings(script, v):
    # Static.get_inner_map / Choice.get_inner_map index *every* leaf below the
    # static prefix an index component follows; a sibling leaf without an index
    # level there (a scalar) raises IndexError
    if "models" in script:  # engine B script
        for ents in script["models"].values():
            addrs = [tuple(e[0]) for e in ents]
            for x in addrs:
                for p, c in enumerate(x):
                    if isinstance(c, int):
                        for y in addrs:
                            if y[:p] == x[:p] and (len(y) <= p or not isinstance(y[p], int)):
                                return True
        return False
    from sim.gen import features

    return "switch_mixed_index" in features(script["programs"][0])


def p_mixed_address_styles(script, v):
    # a static function that uses both string and tuple addresses keeps its
    # sub-traces in a dict keyed by str *and* tuple, which JAX cannot sort when
    # it flattens the trace (jit, vmap, scan, eval_shape ...)
    if "programs" not in script:
        return False
    from sim.gen import features

    if "mixed_addr" in features(script["programs"][0]):
        return True
    st = _step(script, v)
    return st.get("op") == "abort" and st.get("kind") == "reuse-hier"


def p_mask_flag_encoding_structure(script, v):
    # The pytree *structure* of a MaskTrace depends on whether its flag is a
    # concrete Python bool (choice map flattened: empty for False, unmasked for
    # True) or an array (masked leaves).  Operations that zip an old and a new
    # trace (Vmap.edit_index, MaskCombinator.edit, lax.cond/switch branches)
    # fail when one was built with a Python flag and the other with an array.
    return _has(script, "mask", "masked_iterate", "masked_iterate_final")


def p_switch_bare_distribution_branch(script, v):
    """a switch-like node one of whose branches is a distribution itself (through
    map wrappers): with a traced index every branch is assessed, and a branch
    that was not taken has no value in a hand-built choice map"""
    from sim.ref import inner_nodes

    def bare(b):
        while b["k"] in ("map", "dimap", "contramap"):
            b = b["inner"]
        return b["k"] == "dist"

    def walk(n):
        if n["k"] in ("switch", "mix") and any(bare(b) for b in n["branches"]):
            return True
        if n["k"] == "or_else" and (bare(n["a"]) or bare(n["b"])):
            return True
        return any(walk(c) for c in inner_nodes(n))

    return walk(script["programs"][0])


def p_mask_false_on_index_choice(script, v):
    # only scripts that explicitly allow it (the witness) put a False-masked
    # constraint on an index-selecting choice
    return bool(script.get("mask_false_on_index"))


def p_true(script, v):
    return True


PREDICATES = {k[2:]: f for k, f in list(globals().items()) if k.startswith("p_")}


def match(known, pid, script, v):
    """id of the listed finding this violation is an instance of, else None."""
    if script is None:
        return None
    for f in known.get("findings", []):
        if "*" not in f["oracles"] and v["oracle"] not in f["oracles"]:
            continue
        if f.get("class") and v["class"] != f["class"]:
            continue
        if f.get("detail_re") and not re.search(f["detail_re"], v["detail"]):
            continue
        pred = PREDICATES[f["pred"]]
        try:
            if pred(script, v):
                return f["id"]
        except Exception:
            continue
    return None


def replay_witnesses(pid, known, workers):
    """Re-run the witness of every listed finding of this property; one
    KNOWN-FINDING line per finding that still reproduces."""
    from sim import shrink

    lines = []
    for f in known.get("findings", []):
        if pid not in f["properties"]:
            continue
        path = os.path.join(ROOT, f["witness"])
        if not os.path.exists(path):
            lines.append("KNOWN-FINDING: property=%s %s (witness file missing: %s)" % (pid, f["id"], f["witness"]))
            continue
        with open(path) as fh:
            rp = json.load(fh)
        res = shrink.run_replay_subprocess(rp, pid_override=None)
        if res.get("reproduced"):
            lines.append("KNOWN-FINDING: property=%s %s: %s" % (pid, f["id"], f["what"]))
        else:
            print("note: listed finding %s no longer reproduces from its witness (%s)" % (f["id"], res.get("note", "")))
    return lines
