"""setup / self-tests (DESIGN 2.12)."""

import json
import os
import subprocess
import sys
import time

ROOT = os.path.dirname(os.path.dirname(os.path.abspath(__file__)))


def setup():
    """Nothing to build: the simulator is pure Python and imports the working
    tree of /repo through the editable install.  Verify that, and that the
    registered commands exist."""
    out = subprocess.run(
        [sys.executable, "-c", "import genjax, jax, numpy, scipy, os; print(os.path.dirname(genjax.__file__), jax.__version__, numpy.__version__, scipy.__version__)"],
        capture_output=True,
        text=True,
        env={**os.environ, "JAX_PLATFORMS": "cpu"},
    )
    if out.returncode != 0:
        print("setup: cannot import the system under test:\n" + out.stderr[-2000:])
        return 2
    path = out.stdout.strip().split()[0]
    print("setup: genjax imported from", path, "| jax numpy scipy:", " ".join(out.stdout.split()[1:]))
    if not path.startswith("/repo/"):
        print("setup: WARNING genjax is not imported from /repo (checks must run against /repo's working tree)")
        return 2
    with open(os.path.join(ROOT, "MANIFEST.json")) as f:
        m = json.load(f)
    print("setup: %d checks registered, %d not applicable" % (len(m["checks"]), len(m.get("not_applicable", []))))
    os.makedirs(os.path.join(ROOT, "evidence"), exist_ok=True)
    os.makedirs(os.path.join(ROOT, "replays"), exist_ok=True)
    return 0


def main(workers):
    from sim import selftest_impl

    return selftest_impl.main(workers)
