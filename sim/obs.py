"""Observation normal forms (DESIGN 2.6): everything is read through the public
API and normalised to NumPy / Python values before any comparison."""

import numpy as np

from genjax import Mask
from genjax._src.core.generative.choice_map import ChoiceMapNoValueAtAddress

from sim.ref import MaskedIterRet
from sim.texpr import RMask

RTOL = 2e-4


def close(a, b, tol=RTOL):
    a = np.asarray(a, dtype=np.float64)
    b = np.asarray(b, dtype=np.float64)
    if a.shape != b.shape:
        return False
    with np.errstate(invalid="ignore"):
        ok = np.abs(a - b) <= tol * (1.0 + np.abs(a) + np.abs(b))
    ok = ok | (a == b) | (np.isnan(a) & np.isnan(b))  # +-inf equal; nan (inf - inf) equal
    return bool(np.all(ok))


def as_np(v):
    return np.asarray(v)


def addr_key(addr):
    """Address tuple -> what is handed to ChoiceMap.__getitem__."""
    if len(addr) == 1:
        return addr[0]
    return tuple(addr)


def read_choice(chm, addr):
    """(True, value) if the map holds a valid value at addr, else None."""
    try:
        v = chm[addr_key(addr)] if addr else chm.get_value()
    except ChoiceMapNoValueAtAddress:
        return None
    if v is None:
        return None
    if isinstance(v, Mask):
        flag = np.asarray(v.primal_flag())
        if flag.shape != ():
            # vectorised flag on a fully indexed lookup: only when the leaf value
            # itself is a vector the flag covers -> all-or-nothing
            flag = np.all(flag)
        if not bool(flag):
            return None
        return np.asarray(v.value)
    return np.asarray(v)


def read_choices(chm, addrs):
    out = {}
    for a in addrs:
        v = read_choice(chm, a)
        if v is not None:
            out[a] = v
    return out


def norm_leaf_value(v):
    v = np.asarray(v)
    if v.shape == ():
        return v.item()
    return v


def x_from_obs(obs):
    """ONF choices -> assignment for the reference model."""
    return {a: norm_leaf_value(v) for a, v in obs.items()}


# -------------------------------------------------------------- retvals


def cmp_val(real, ref, path="ret"):
    """List of mismatch descriptions between a real (jax / genjax) value and a
    reference value.  Empty list = agree."""
    out = []
    if isinstance(ref, MaskedIterRet):
        real_l = _leaves(real)
        ref_l = _leaves(ref.stacked)
        if len(real_l) != len(ref_l):
            return ["%s: structure %d vs %d leaves" % (path, len(real_l), len(ref_l))]
        valid = np.asarray(ref.valid, dtype=bool)
        for i, (a, b) in enumerate(zip(real_l, ref_l)):
            a = np.asarray(a)
            b = np.asarray(b)
            if a.shape != b.shape:
                out.append("%s[%d]: shape %s vs %s" % (path, i, a.shape, b.shape))
            elif valid.shape != a.shape[: valid.ndim]:
                out.append("%s[%d]: validity shape %s vs %s" % (path, i, valid.shape, a.shape))
            elif not close(a[valid], b[valid]):
                out.append("%s[%d]: %s vs %s (valid=%s)" % (path, i, a, b, valid))
        return out
    if isinstance(ref, RMask):
        if not isinstance(real, Mask):
            return ["%s: expected a Mask, got %s" % (path, type(real).__name__)]
        rf = np.asarray(real.primal_flag())
        ef = np.asarray(ref.flag)
        if ef.shape == () and rf.shape != ():
            # a scalar outer flag folded into vectorised inner flags (mask of a
            # vmapped mask): all-or-nothing
            if bool(ef):
                ef = np.broadcast_to(ef, rf.shape)
            else:
                return [] if not rf.any() else ["%s.flag: %s vs %s" % (path, rf, ef)]
        if rf.shape != ef.shape or not np.array_equal(rf.astype(bool), ef.astype(bool)):
            return ["%s.flag: %s vs %s" % (path, rf, ef)]
        if ef.shape == ():
            if bool(ef):
                out += cmp_val(real.value, ref.value, path + ".value")
            return out
        # vectorised: compare where valid
        real_l = _leaves(real.value)
        ref_l = _leaves(ref.value)
        if len(real_l) != len(ref_l):
            return ["%s.value: structure" % path]
        for i, (a, b) in enumerate(zip(real_l, ref_l)):
            a, b = np.asarray(a), np.asarray(b)
            if a.shape != b.shape:
                out.append("%s.value[%d]: shape %s vs %s" % (path, i, a.shape, b.shape))
            elif not close(a[ef], b[ef]):
                out.append("%s.value[%d]: %s vs %s" % (path, i, a, b))
        return out
    if isinstance(real, Mask):
        return ["%s: unexpected Mask" % path]
    if ref is None:
        if real is not None:
            out.append("%s: expected None, got %r" % (path, real))
        return out
    if isinstance(ref, tuple):
        if not isinstance(real, (tuple, list)) or len(real) != len(ref):
            return ["%s: expected %d-tuple, got %r" % (path, len(ref), type(real).__name__)]
        for i, (a, b) in enumerate(zip(real, ref)):
            out += cmp_val(a, b, "%s[%d]" % (path, i))
        return out
    if isinstance(ref, dict):
        if not isinstance(real, dict) or sorted(real) != sorted(ref):
            return ["%s: dict keys" % path]
        for k in sorted(ref):
            out += cmp_val(real[k], ref[k], "%s[%r]" % (path, k))
        return out
    a = np.asarray(real)
    b = np.asarray(ref)
    if a.shape != b.shape:
        return ["%s: shape %s vs %s" % (path, a.shape, b.shape)]
    if not close(a, b):
        return ["%s: %s vs %s" % (path, a, b)]
    return out


def _leaves(v):
    if isinstance(v, (tuple, list)):
        out = []
        for x in v:
            out += _leaves(x)
        return out
    if isinstance(v, dict):
        out = []
        for k in sorted(v):
            out += _leaves(v[k])
        return out
    if v is None:
        return []
    if isinstance(v, Mask):
        return _leaves(v.primal_flag()) + _leaves(v.value)
    if isinstance(v, RMask):
        return _leaves(v.flag) + _leaves(v.value)
    return [v]


def cmp_real(a, b, path="v", exact=False):
    """Compare two real-side pytrees (replica agreement)."""
    import jax.tree_util as jtu

    try:
        la = jtu.tree_leaves(a)
        lb = jtu.tree_leaves(b)
    except Exception as e:  # a value that cannot be flattened (known finding KF05)
        return ["%s: cannot be flattened: %s: %s" % (path, type(e).__name__, str(e)[:200])]
    if len(la) != len(lb):
        return ["%s: %d vs %d leaves" % (path, len(la), len(lb))]
    out = []
    for i, (x, y) in enumerate(zip(la, lb)):
        x, y = np.asarray(x), np.asarray(y)
        if x.shape != y.shape:
            out.append("%s#%d: shape %s vs %s" % (path, i, x.shape, y.shape))
        elif exact:
            if x.tobytes() != y.tobytes():
                out.append("%s#%d: bits differ %s vs %s" % (path, i, x, y))
        elif not close(x, y):
            out.append("%s#%d: %s vs %s" % (path, i, x, y))
    return out


def bits(v):
    """Stable fingerprint of a numeric value (for determinism digests)."""
    a = np.asarray(v)
    return "%s%s:%s" % (a.dtype.str, a.shape, a.tobytes().hex())
