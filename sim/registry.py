"""Which engine serves which property, and the text that goes in MANIFEST.json."""

A_PROPS = [
    "C01", "C02", "C03", "C04", "C05", "C06", "C07", "C08", "C10", "C11", "C12",
    "C13", "C14", "C15", "C16", "C22", "C23", "C32", "C33", "C34", "C35", "C38",
]

ENGINE = {p: "gfisim" for p in A_PROPS}
ENGINE["C17"] = "chmsim"
ENGINE["C19"] = "chmsim"
ENGINE["C31"] = "ttsim"

RULES = {
    "gfisim": "sessions are generated from the seed by sim/script.py (program AST from sim/gen.py, 3-12 GFI steps, per-replica perturbation schedule) and executed on the real GenJAX; a session is non-trivial if its program has >=1 combinator, it has >=1 edit or constrained create, and >=1 perturbation actually fired; distinct = distinct (program kind sequence, operation-kind sequence, fired perturbation multiset) signatures among non-trivial sessions",
    "chmsim": "choice-map / mask construction histories generated from the seed by sim/chmsim.py over the alphabet {a,b,c} with <=2 index levels; non-trivial = >=3 construction operations and >=1 traced replica; distinct = distinct operation-kind sequences",
    "ttsim": "debugger navigation histories generated from the seed by sim/ttsim.py; non-trivial = >=2 record points and >=2 navigation operations; distinct = distinct (program shape, operation sequence) pairs",
}

# property id -> (engine, technique, level text, level note, design ref); filled as checks land
CLAIMS = {}
