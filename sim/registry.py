"""Which engine serves which property, and the text that goes in MANIFEST.json."""

A_PROPS = [
    "C01", "C02", "C03", "C04", "C05", "C06", "C07", "C08", "C10", "C11", "C12",
    "C13", "C14", "C15", "C16", "C22", "C23", "C32", "C33", "C34", "C35", "C38",
]

ENGINE = {p: "gfisim" for p in A_PROPS}
ENGINE["C04"] = ["gfisim", "distsim"]
ENGINE["C17"] = "chmsim"
ENGINE["C19"] = "chmsim"
ENGINE["C31"] = "ttsim"

RULES = {
    "gfisim": "sessions are generated from the seed by sim/script.py (program AST from sim/gen.py, 3-12 GFI steps, per-replica perturbation schedule) and executed on the real GenJAX; a session is non-trivial if its program has >=1 combinator, it has >=1 edit or constrained create, and >=1 perturbation actually fired; distinct = distinct (program kind sequence, operation-kind sequence, fired perturbation multiset) signatures among non-trivial sessions",
    "chmsim": "choice-map / mask construction histories generated from the seed by sim/chmsim.py over the alphabet {a,b,c} with <=2 index levels; non-trivial = >=3 construction operations and >=1 traced replica; distinct = distinct operation-kind sequences",
    "distsim": "C04 supplement sessions (sim/distsim.py): a generated finite-discrete or continuous program, the key-reuse monitor on simulate/propose, and N samples in one jit(vmap(simulate)) compared with the reference's exact table (G-test) or conditional CDFs (KS / grid chi-square), p<1e-9",
    "ttsim": "debugger navigation histories generated from the seed by sim/ttsim.py; non-trivial = >=2 record points and >=2 navigation operations; distinct = distinct (program shape, operation sequence) pairs",
}

# property id -> (engine, technique, level text, level note, design ref); filled as checks land
CLAIMS = {}

_NOTE = (
    "sampling, not proof; trusted base: the reference interpreter sim/ref.py (NumPy/SciPy, float64, "
    "no genjax import), the acceptance table in sim/script.py, JAX PRNG/XLA determinism; bounds: "
    "depth<=3, vector length<=3, <=12 scalar choices, nine leaf distributions, float32 tolerance 2e-4"
)

_T = "deterministic simulation with fault injection: seeded GFI sessions on generated programs, replicas under injected environment faults, stepped against a reference model; "


def _a(pid, technique, text, ref="DESIGN 3"):
    CLAIMS[pid] = ("gfisim", _T + technique, text, _NOTE, ref + " " + pid)


_a("C01", "per-step invariant assess(trace.choices, trace.args) == (score, retval) after every create/edit/undo on every replica",
   "Exploration: every trace produced in seeded sessions of simulate/importance/update/regenerate/index/static/empty edits and undos is re-assessed under the replica's staging context and compared with the trace and with the reference interpreter run on the trace's own choices. Evidence, not proof; a clean run means no disagreement on the sessions explored.")
_a("C02", "per-step invariant score == reference log-density of the trace's own choices",
   "Exploration: scores of all traces and of assess are compared with an independent float64 density interpreter of the program AST; masked-off and non-selected choices must contribute nothing.")
_a("C03", "post-condition of every importance step against per-address reference log-densities",
   "Exploration: empty, full, partial and single-address constraints (several builder paths, indexed / sliced / masked encodings) on generated programs; weight vs sum of constrained&visited log-densities, constraint installed, empty=>0, full=>score.")
_a("C04", "replay determinism under equal key material across staging contexts, cold caches and replicas",
   "Exploration: same-key re-execution must be bit-identical in the same context and agree across eager/jit/vmap/cache-cold replicas; the distributional clause is covered by the reference-table G-test in the thorough tier only where finite (statistical supplement, labelled as such).")
_a("C05", "post-conditions of every update step and of update chains against the reference state",
   "Exploration: constraints installed, unconstrained visited choices bit-identical, weight == new-old reference score when no new choice is introduced, backward constraint == previous values, new arguments stored; argument changes keep shapes; switch-resample exemption per the documented exception.")
_a("C06", "history check: backward request of every accepted edit applied with the original arguments restores choices, score, retval and negates the weight",
   "Exploration over edit/undo chains (Update, Regenerate, IndexRequest, StaticRequest, undo of undo) on all program classes.")
_a("C07", "post-conditions of every Regenerate step with selections from the term grammar interpreted by a reference predicate",
   "Exploration: unselected choices bit-identical, weight == new-old score, empty selection is the identity with weight 0.")
_a("C08", "NoChange leaves compared with the previous return value along every history; paired replicas differing only by NoChange/UnknownChange on unchanged arguments",
   "Exploration: (i) every retdiff leaf tagged NoChange must equal the previous value; (ii) tag:unknown replicas must agree with the plain replica on trace, weight and backward request (never applied where an argument reaches a switch index).")
_a("C10", "read steps: project(selection) vs sum of selected reference log-densities, plus the all/none/complement algebra",
   "Exploration on all programs whose combinators support project; mask-rooted programs are expected to refuse.")
_a("C11", "vmap/repeat-rooted sessions vs the reference 'N independent calls', index edits must not leak to other elements",
   "Exploration over in_axes configurations, lengths 0-3, indexed constraints (scalar, array, slice, vmapped builders), IndexRequest at first/middle/last.")
_a("C12", "scan-rooted sessions: after every generate/update/regenerate/index edit the trace must equal the documented Python loop run on its own choices",
   "Exploration over kernels, lengths 1-3, carries, scanned inputs and edit positions; accumulate/reduce/iterate/iterate_final against their docstring loops.")
_a("C13", "switch/or_else/mix-rooted sessions vs 'branch clamp(k) alone', Python-int and array indices, out-of-range indices",
   "Exploration: score, retval, valid choices, importance weights and edits must come from the executed branch; index encodings must agree.")
_a("C14", "mask-rooted sessions: flag True transparent, flag False inert, every flag transition in updates weighs new-old score; concrete vs array flags as replicas",
   "Exploration over inner programs and flag transitions, scalar flags under vmap.")
_a("C15", "dimap/map/contramap-rooted sessions vs inner-on-pre(args) with post(args, pre(args), ret) computed by the reference; retdiff primal and NoChange tags checked after edits",
   "Exploration over generated pre/post expression maps (including constant outputs).")
_a("C16", "masked_iterate(_final)-rooted sessions vs the reference loop (False steps: no score, value unchanged)",
   "Exploration over step kernels and all mask patterns of length <=3.")
_a("C22", "per-step invariant valid address set == reference visited set; abort faults: assess with visited addresses removed must raise MissingAddress iff a visited call site lost its whole sub-map",
   "Exploration over string / tuple addressed static programs; sessions continue after the aborted operation.")
_a("C23", "replica agreement under stage:jit, stage:vmap (sliced at the session's slot), boundary:flatten / boundary:jit-id perturbations",
   "Exploration: every observable of every step (choices, score, retval, weight, backward constraint, project value) must agree between the eager plain replica and staged replicas.")
_a("C32", "closure / partial_apply-rooted sessions: trace-level APIs with full arguments vs closure.edit / closure.update with the remaining arguments, keyword-carrying closures",
   "Exploration: closures must behave as the wrapped function with stored arguments prepended in simulate, importance, assess, update and edit.")
_a("C33", "abort:stray faults: invalid_subset must be None iff every address is traceable, else exactly the untraceable part",
   "Exploration over constraints mixing valid addresses, unknown addresses and unknown leaves below valid prefixes.")
_a("C34", "read steps: get_subtrace at every static call site vs the parent's sub-map and the reference per-call score",
   "Exploration on static-rooted (and wrapper-rooted) programs with nested callees incl. vector combinators.")
_a("C35", "paired encodings of constraints: Mask(v, True) concrete / array flag vs v; Mask(junk, False) vs absent; vectorised flags",
   "Exploration: importance and update under enc:mask-* perturbations must agree with the plain replica and with the reference post-conditions.")
_a("C38", "paired operations: propose vs simulate, importance vs generate (bitwise, same key); EmptyRequest, StaticRequest, DiffAnnotate(identity) post-conditions; Trace.* vs GenerativeFunction.* API variants",
   "Exploration over request compositions and argument changes.")


def _b(pid, technique, text):
    CLAIMS[pid] = ("chmsim", "deterministic simulation with fault injection: seeded construction histories on replicas that differ in flag/index encoding (concrete, array, jit-traced, vmapped), against a reference model; " + technique, text, "sampling, not proof; trusted base: the finite-map / truth-table model in sim/chmsim.py; layouts the library rejects by design (Choice|non-Choice, two switches in an Or, an index level next to un-indexed siblings) are not generated", "DESIGN 2.14, 3 " + pid)


_b("C17", "finite-map model stepped alongside d/kw/entry/extend/at.set/|/mask/filter/switch/get_submap/array-index/slice/vmapped builders; every model address and perturbed absent addresses read after construction",
   "Exploration: validity and value of every lookup must equal the model's (left-biased union, mask(False) empties, filter keeps selected static parts, index levels address elements) in the concrete, array and jit replicas; get_selection must select the static part of every valid address.")
_b("C19", "truth tables of | ^ ~ build flatten maybe_mask unmask(default) or_n xor_n applied to (flag, value, defined) triples, scalar and vectorised flags, pytree values",
   "Exploration: flag and valid value of every intermediate result must equal the truth tables in the concrete, array, jit and vmap replicas (payloads the tables leave undefined are not compared).")


CLAIMS["C31"] = (
    "ttsim",
    "deterministic simulation: seeded navigation histories (jump/fwd/bwd/remix, stacked remixes) on generated JAX programs with record points and tags, stepped against a list-and-pointer model that replays the program in plain Python; replicas: Python-scalar vs array arguments",
    "Exploration: after recording and after every navigation step the debugger's final_retval, frame count, every frame's arguments and local return value, the pointer and the jump points must equal the model's; remix at frame k must equal re-running with that call's arguments replaced and all earlier remixes still in force.",
    "sampling, not proof; trusted base: the replay model in sim/ttsim.py; jit around time_machine is not a replica because the debugger object is not a JAX type (TypeError), which the property does not ask for",
    "DESIGN 2.14, 3 C31",
)
