"""Self-tests (DESIGN 2.12).

determinism: the same session seeds are executed in fresh interpreters at two
worker counts and under two PYTHONHASHSEED values; scripts and per-session event
digests (bit patterns of scores, weights and choices, outcomes, violations) must
be identical.
"""

import json
import os
import sys
import time

from sim.run import run_jobs
from sim.seedhash import H


def determinism(workers, n=24):
    from sim.registry import ENGINE

    pids = ["C01", "C06", "C12", "C13", "C23", "C17", "C19", "C31"]
    jobs = []
    j = 0
    for pid in pids:
        k = n if ENGINE[pid] != "gfisim" else max(4, n // 4)  # noqa
        for i in range(k):
            jobs.append({"pid": pid, "tier": "quick", "j": j, "seed": H(12345, pid, "det", i), "engine": ENGINE[pid]})
            j += 1
    runs = []
    for hs, w in (("0", workers), ("7", max(1, workers // 2)), ("0", max(1, workers // 2))):
        os.environ["PYTHONHASHSEED"] = hs
        t0 = time.time()
        res = run_jobs(jobs, w)
        runs.append((hs, w, res, time.time() - t0))
    base = runs[0][2]
    bad = 0
    for hs, w, res, dt in runs[1:]:
        for a, b in zip(base, res):
            if a.get("harness_error") or b.get("harness_error"):
                print("determinism: harness error in session", a["j"], (a.get("harness_error") or b.get("harness_error"))[:300])
                bad += 1
                continue
            sa = json.dumps(a["script"], sort_keys=True, default=str)
            sb = json.dumps(b["script"], sort_keys=True, default=str)
            va = json.dumps(a["violations"], sort_keys=True, default=str)
            vb = json.dumps(b["violations"], sort_keys=True, default=str)
            if sa != sb:
                print("determinism: SCRIPT differs for session %d (%s) between hashseed 0 and %s" % (a["j"], a["pid"], hs))
                bad += 1
            elif a.get("digest") != b.get("digest") or va != vb:
                print("determinism: EVENT LOG differs for session %d (%s seed %d) between (hashseed 0, %d workers) and (hashseed %s, %d workers)" % (a["j"], a["pid"], a["seed"], runs[0][1], hs, w))
                bad += 1
    print("determinism: %d sessions x %d extra runs compared, %d differences" % (len(jobs), len(runs) - 1, bad))
    return bad


def main(workers):
    bad = determinism(workers)
    return 0 if bad == 0 else 2
