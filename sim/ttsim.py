"""Engine C: time-travel debugger navigation histories (C31) against a
list-and-pointer model that replays the recorded program in plain Python."""

import json
import math
import warnings

from sim.seedhash import H, rng_for

# ------------------------------------------------------------------ generation
#
# program: {"nargs": k, "stmts": [...], "ret": expr}
#   stmt {"kind": "rec", "tag": str|None, "fn": expr over ["q", i], "args": [expr over locals]}
#   stmt {"kind": "tag", "tag": str|None, "arg": expr}
#   stmt {"kind": "plain", "expr": expr}
# expr: ["x", i] argument | ["l", j] local | ["q", i] callee parameter | ["c", v]
#       | ["add", a, b] | ["mul", a, b] | ["sin", a] | ["tanh", a]


def gen_expr(rng, leaves, depth=2):
    if depth <= 0 or rng.random() < 0.35:
        if rng.random() < 0.25:
            return ["c", round(rng.uniform(-1.5, 1.5), 2)]
        return list(rng.choice(leaves))
    op = rng.choice(["add", "mul", "sin", "tanh", "add"])
    if op in ("sin", "tanh"):
        return [op, gen_expr(rng, leaves, depth - 1)]
    return [op, gen_expr(rng, leaves, depth - 1), gen_expr(rng, leaves, depth - 1)]


def gen_script(seed, pid="C31", tier="quick"):
    rng = rng_for(seed, "tt")
    nargs = rng.randint(1, 3)
    nst = rng.randint(1, 5)
    stmts = []
    tags = []
    leaves = [["x", i] for i in range(nargs)]
    for j in range(nst):
        k = rng.choice(["rec", "rec", "tag", "plain"])
        tg = None
        if k != "plain" and rng.random() < 0.7:
            tg = "t%d" % len(tags) if rng.random() < 0.85 or not tags else rng.choice(tags)
            tags.append(tg)
        if k == "rec":
            na = rng.randint(1, 2)
            fn = gen_expr(rng, [["q", i] for i in range(na)], 2)
            stmts.append({"kind": "rec", "tag": tg, "fn": fn, "args": [gen_expr(rng, leaves, 1) for _ in range(na)]})
        elif k == "tag":
            stmts.append({"kind": "tag", "tag": tg, "arg": gen_expr(rng, leaves, 1)})
        else:
            stmts.append({"kind": "plain", "expr": gen_expr(rng, leaves, 2)})
        leaves.append(["l", j])
    prog = {"nargs": nargs, "stmts": stmts, "ret": gen_expr(rng, leaves, 2)}
    args = [round(rng.uniform(-2, 2), 2) for _ in range(nargs)]
    nrec = sum(1 for s in stmts if s["kind"] != "plain")
    nav = []
    n_ops = rng.randint(2, 8 if tier == "quick" else 16)
    all_tags = sorted(set(tags)) + ["_enter", "exit"]
    for _ in range(n_ops):
        r = rng.random()
        if r < 0.3:
            nav.append({"op": "fwd"})
        elif r < 0.5:
            nav.append({"op": "bwd"})
        elif r < 0.75:
            nav.append({"op": "jump", "tag": rng.choice(all_tags)})
        else:
            nav.append({"op": "remix", "vals": [round(rng.uniform(-2, 2), 2) for _ in range(3)]})
    return {"v": 1, "pid": "C31", "tier": tier, "seed": seed, "prog": prog, "args": args, "ops": nav, "replicas": ["py", "array"], "nrec": nrec}


# -------------------------------------------------------------------- reference


def ev(e, xs, ls, qs=None):
    op = e[0]
    if op == "x":
        return xs[e[1]]
    if op == "l":
        return ls[e[1]]
    if op == "q":
        return qs[e[1]]
    if op == "c":
        return e[1]
    if op == "add":
        return ev(e[1], xs, ls, qs) + ev(e[2], xs, ls, qs)
    if op == "mul":
        return ev(e[1], xs, ls, qs) * ev(e[2], xs, ls, qs)
    if op == "sin":
        return math.sin(ev(e[1], xs, ls, qs))
    if op == "tanh":
        return math.tanh(ev(e[1], xs, ls, qs))
    raise ValueError(op)


def ref_frames(prog, args, overrides=None):
    """Run the program in plain Python; list of frames [tag, args, local_ret] in
    execution order (frame 0 = '_enter', last = 'exit') and the final value.
    overrides: {frame index: new args} - the arguments of those recorded calls
    are replaced (what `remix` does at a frame)."""
    ov = overrides or {}
    xs = list(ov.get(0, args))
    ls = []
    frames = [["_enter", tuple(xs), None]]
    fi = 0
    for s in prog["stmts"]:
        if s["kind"] == "plain":
            ls.append(ev(s["expr"], xs, ls))
            continue
        fi += 1
        if s["kind"] == "rec":
            a = tuple(ev(x, xs, ls) for x in s["args"])
            a = tuple(ov.get(fi, a))
            r = ev(s["fn"], None, None, a)
        else:
            a = (ev(s["arg"], xs, ls),)
            a = tuple(ov.get(fi, a))
            r = a[0]
        frames.append([s["tag"], a, r])
        ls.append(r)
    inner_final = ev(prog["ret"], xs, ls)
    frames[0][2] = inner_final
    fi += 1
    a = tuple(ov.get(fi, (inner_final,)))
    frames.append(["exit", a, a[0]])
    return frames, a[0]


# -------------------------------------------------------------------- execution


def _viol(out, oracle, step, rep, detail, cls="value"):
    out.append({"oracle": oracle, "props": ["C31"], "step": step, "replica": rep, "class": cls, "detail": detail[:600]})


def _close(a, b):
    a = float(a)
    b = float(b)
    return abs(a - b) <= 2e-4 * (1 + abs(a) + abs(b))


def run_session(seed, pid, tier, script=None):
    warnings.filterwarnings("ignore")
    import jax.numpy as jnp
    import numpy as np

    from genjax._src.core.compiler.interpreters.time_travel import rec, tag, time_machine

    sc = script or gen_script(seed, pid, tier)
    prog = sc["prog"]
    viols = []
    fired = {}

    def jev(e, xs, ls, qs=None):
        op = e[0]
        if op == "x":
            return xs[e[1]]
        if op == "l":
            return ls[e[1]]
        if op == "q":
            return qs[e[1]]
        if op == "c":
            return e[1]
        if op == "add":
            return jev(e[1], xs, ls, qs) + jev(e[2], xs, ls, qs)
        if op == "mul":
            return jev(e[1], xs, ls, qs) * jev(e[2], xs, ls, qs)
        if op == "sin":
            return jnp.sin(jev(e[1], xs, ls, qs))
        if op == "tanh":
            return jnp.tanh(jev(e[1], xs, ls, qs))
        raise ValueError(op)

    def f(*xs):
        ls = []
        for s in prog["stmts"]:
            if s["kind"] == "plain":
                ls.append(jev(s["expr"], xs, ls))
            elif s["kind"] == "rec":
                fn = s["fn"]
                a = [jev(x, xs, ls) for x in s["args"]]
                ls.append(rec(lambda *qs, fn=fn: jev(fn, None, None, qs), s["tag"])(*a))
            else:
                ls.append(tag(jev(s["arg"], xs, ls), s["tag"]))
        return jev(prog["ret"], xs, ls)

    for rep in sc["replicas"]:
        args = sc["args"] if rep == "py" else [jnp.asarray(a, dtype=jnp.float32) for a in sc["args"]]
        try:
            dbg = time_machine(f)(*args)
            plain = f(*args)
        except Exception as e:
            _viol(viols, "C31.record-crash", 0, rep, "time_machine raised %s: %s" % (type(e).__name__, str(e)[:300]), "crash")
            continue
        fired[rep] = 1
        frames, final = ref_frames(prog, sc["args"])
        # model state
        ptr = 0
        jumps = {}
        for i, fr in enumerate(frames):
            if fr[0]:
                jumps[fr[0]] = i

        def check(dbg, frames, final, ptr, step, what):
            if not _close(dbg.final_retval, final):
                _viol(viols, "C31.final", step, rep, "%s: final_retval %s vs model %s" % (what, np.asarray(dbg.final_retval), final))
            if len(dbg.sequence) != len(frames):
                _viol(viols, "C31.frame-count", step, rep, "%s: %d frames vs %d recorded calls" % (what, len(dbg.sequence), len(frames)))
                return
            if dbg.ptr != ptr or not (0 <= dbg.ptr < len(dbg.sequence)):
                _viol(viols, "C31.pointer", step, rep, "%s: pointer %d vs model %d (len %d)" % (what, dbg.ptr, ptr, len(frames)))
            for i, (fr, rf) in enumerate(zip(dbg.sequence, frames)):
                if len(fr.args) != len(rf[1]) or any(not _close(a, b) for a, b in zip(fr.args, rf[1])):
                    _viol(viols, "C31.frame-args", step, rep, "%s: frame %d args %s vs %s" % (what, i, [float(a) for a in fr.args], list(rf[1])))
                    break
                if not _close(fr.local_retval, rf[2]):
                    _viol(viols, "C31.frame-retval", step, rep, "%s: frame %d local retval %s vs %s" % (what, i, float(fr.local_retval), rf[2]))
                    break

        if not _close(plain, final):
            _viol(viols, "C31.final", 0, rep, "final value of plain evaluation %s vs reference %s" % (np.asarray(plain), final))
        check(dbg, frames, final, ptr, 0, "record")
        tags_real = dict(dbg.jump_points)
        if tags_real != jumps:
            _viol(viols, "C31.jump-points", 0, rep, "jump points %s vs model %s" % (tags_real, jumps))
        active = {}
        for j, op in enumerate(sc["ops"]):
            step = j + 1
            try:
                if op["op"] == "fwd":
                    dbg = dbg.fwd()
                    ptr = min(ptr + 1, len(frames) - 1)
                elif op["op"] == "bwd":
                    dbg = dbg.bwd()
                    ptr = max(ptr - 1, 0)
                elif op["op"] == "jump":
                    if op["tag"] not in jumps:
                        continue
                    dbg = dbg.jump(op["tag"])
                    ptr = jumps[op["tag"]]
                else:
                    k = len(frames[ptr][1])
                    vals = op["vals"][:k]
                    rv = vals if rep == "py" else [jnp.asarray(v, dtype=jnp.float32) for v in vals]
                    dbg = dbg.remix(*rv)
                    # the frames before the pointer stay as recorded; the call at the
                    # pointer gets the new arguments and the rest is re-executed from
                    # the continuation captured when that frame was recorded
                    active = {i: v for i, v in active.items() if i < ptr}
                    active[ptr] = tuple(vals)
                    newf, final = ref_frames(prog, sc["args"], active)
                    frames = frames[:ptr] + newf[ptr:]
                    fired["remix"] = fired.get("remix", 0) + 1
            except Exception as e:
                _viol(viols, "C31.nav-crash", step, rep, "%s raised %s: %s" % (op["op"], type(e).__name__, str(e)[:300]), "crash")
                break
            check(dbg, frames, final, ptr, step, op["op"])
    opseq = tuple(o["op"] for o in sc["ops"])
    shape = tuple(s["kind"] for s in prog["stmts"])
    return {
        "script": sc,
        "violations": viols,
        "steps": len(sc["ops"]) * len(sc["replicas"]),
        "ok_steps": len(sc["ops"]),
        "rejected": {},
        "agree_checks": 0,
        "fired": {"replica:" + k if k in ("py", "array") else k: v for k, v in fired.items()},
        "probes": {},
        "signature": H(json.dumps([shape, opseq])),
        "nontrivial": sc["nrec"] >= 2 and len(sc["ops"]) >= 2,
        "digest": "",
        "kinds": list(shape)[:8],
    }
