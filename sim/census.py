"""Developer tool: run sessions for several properties and tabulate oracles hit."""
import json
import os
import time

from sim.run import run_jobs
from sim.seedhash import H


def main(pids, tier, seed, workers, sessions):
    from sim.registry import ENGINE

    pids = pids.split(",") if pids else ["C01"]
    jobs = []
    j = 0
    for pid in pids:
        for k in range(sessions):
            eng = ENGINE[pid]
            eng = eng[k % len(eng)] if isinstance(eng, list) else eng
            jobs.append({"pid": pid, "tier": tier, "j": j, "seed": H(seed, pid, tier, k), "engine": eng})
            j += 1
    t0 = time.time()
    res = run_jobs(jobs, workers)
    table = {}
    herr = 0
    for r in res:
        if r.get("harness_error"):
            herr += 1
            print("HARNESS", r["pid"], r["j"], r["seed"], r["harness_error"][:600])
            continue
        seen = set()
        for v in r.get("violations", []):
            key = (v["oracle"], v["class"])
            if key in seen:
                continue
            seen.add(key)
            e = table.setdefault(key, {"n": 0, "ex": []})
            e["n"] += 1
            if len(e["ex"]) < 4:
                e["ex"].append((r["pid"], r["seed"], r.get("kinds"), v["step"], v["replica"], v["detail"][:300]))
    for key, e in sorted(table.items(), key=lambda kv: -kv[1]["n"]):
        print("== %s [%s] x%d" % (key[0], key[1], e["n"]))
        for ex in e["ex"]:
            print("     ", ex)
    tot = sum(r.get("wall", 0) for r in res)
    print("sessions %d harness_errors %d wall %.1fs cpu %.1fs" % (len(res), herr, time.time() - t0, tot))
    os.makedirs("/tmp/census", exist_ok=True)
    with open("/tmp/census/last.json", "w") as f:
        json.dump([{k: v for k, v in r.items()} for r in res], f, default=str)
    return 0
