"""One integer decides everything: seed derivation (pure, process-independent)."""

import hashlib
import random


def H(*parts) -> int:
    """64-bit hash of a canonical byte string of the parts (ints / strs only)."""
    s = "\x1f".join(
        ("i%d" % p) if isinstance(p, int) else ("s" + str(p)) for p in parts
    ).encode()
    return int.from_bytes(hashlib.blake2b(s, digest_size=8).digest(), "big")


def rng_for(*parts) -> random.Random:
    return random.Random(H(*parts))
