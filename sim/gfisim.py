"""Engine A: executes a session script on the real GenJAX, on several replicas
that differ only in their perturbation (fault) schedule, checks every trace
against the reference model after every step, and checks replica agreement.

execute(script) is a pure function of the script and the code under test.
"""

import os
import traceback
import warnings

import numpy as np

import jax
import jax.numpy as jnp
import jax.tree_util as jtu

import genjax
from genjax import ChoiceMap, Diff, Mask, Selection
from genjax import ChoiceMapBuilder as C
from genjax._src.core.compiler import staging as _staging
from genjax._src.core.generative.requests import DiffAnnotate, EmptyRequest, Regenerate
from genjax._src.core.generative.concepts import IndexRequest
from genjax._src.core.generative.generative_function import Update
from genjax._src.core.compiler.interpreters.incremental import NoChange, UnknownChange
from genjax._src.generative_functions.static import StaticRequest

from sim import build, obs, ref
from sim.script import (
    accepts_regenerate,
    constrainable,
    has_kind,
    sel_member,
    static_part,
    static_root,
    unwrap,
)

warnings.filterwarnings("ignore", category=DeprecationWarning)


class HarnessError(Exception):
    pass


# ------------------------------------------------------------------ violations


class Violation:
    def __init__(self, oracle, props, step, replica, detail, cls="value"):
        self.oracle = oracle
        self.props = sorted(props)
        self.step = step
        self.replica = replica
        self.detail = detail
        self.cls = cls  # value | crash | diverge

    def to_json(self):
        return {
            "oracle": self.oracle,
            "props": self.props,
            "step": self.step,
            "replica": self.replica,
            "class": self.cls,
            "detail": self.detail[:600],
        }

    def fingerprint(self):
        return (self.oracle, self.cls)


COMB_PROPS = {
    "vmap": "C11",
    "repeat": "C11",
    "scan": "C12",
    "accumulate": "C12",
    "reduce": "C12",
    "iterate": "C12",
    "iterate_final": "C12",
    "masked_iterate": "C16",
    "masked_iterate_final": "C16",
    "switch": "C13",
    "or_else": "C13",
    "mix": "C13",
    "mask": "C14",
    "dimap": "C15",
    "map": "C15",
    "contramap": "C15",
    "closure": "C32",
    "partial": "C32",
}


def prog_props(node):
    out = set()
    for k in ref.kinds(node):
        if k in COMB_PROPS:
            out.add(COMB_PROPS[k])
    return out


# --------------------------------------------------------------------- helpers


def make_key(n):
    return jax.random.key(int(n))


def sel_build(term):
    op = term[0]
    if op == "all":
        return Selection.all()
    if op == "none":
        return Selection.none()
    if op == "leaf":
        return Selection.leaf()
    if op in ("at", "atleaf"):
        comps = [... if c == "..." else c for c in term[1]]
        base = Selection.all() if op == "at" else Selection.leaf()
        if op == "at" and comps:
            return Selection.at[tuple(comps)]
        return base.extend(*comps)
    if op == "or":
        return sel_build(term[1]) | sel_build(term[2])
    if op == "and":
        return sel_build(term[1]) & sel_build(term[2])
    if op == "not":
        return ~sel_build(term[1])
    raise ValueError(op)


def leaf_to_jax(leaf, v):
    d = leaf["d"] if leaf is not None else None
    if d == "flip":
        return jnp.asarray(bool(v))
    if d == "flipv":
        return jnp.asarray(v, dtype=bool)
    if d in ("bernoulli", "categorical"):
        return jnp.asarray(int(v), dtype=jnp.int32)
    if d == "normalv":
        return jnp.asarray(v, dtype=jnp.float32)
    return jnp.asarray(float(v), dtype=jnp.float32)


def _addr_comps(addr, idx_enc="int"):
    out = []
    for c in addr:
        if isinstance(c, int) and idx_enc == "arr":
            out.append(jnp.asarray(c, dtype=jnp.int32))
        else:
            out.append(c)
    return tuple(out)


def build_chm(entries, leaves, style="set", wrap=None, falses=()):
    """entries: [[addr, value], ...] -> ChoiceMap through the chosen builder path.

    wrap: None | "mask-true" | "mask-true-traced"  (C35 encodings)
    falses: addresses to add as Mask(junk, False) (must act as unconstrained)
    """
    ents = [(tuple(a), leaf_to_jax(leaves.get(tuple(a)), v)) for a, v in entries]

    def wrapv(v):
        if wrap == "mask-true":
            return Mask(v, True)
        if wrap == "mask-true-traced":
            return Mask(v, jnp.asarray(True))
        return v

    chm = ChoiceMap.empty()
    done = set()
    if style in ("arrayidx", "slice", "vmapped") and ents:
        # group addresses that differ in exactly one int component
        groups = {}
        for a, v in ents:
            ipos = [i for i, c in enumerate(a) if isinstance(c, int)]
            if len(ipos) >= 1:
                p = ipos[0]
                groups.setdefault((a[:p], a[p + 1 :], p), []).append((a[p], a, v))
        for (pre, post, p), items in sorted(groups.items(), key=lambda kv: str(kv[0])):
            if any(isinstance(c, int) for c in post):
                continue
            items.sort(key=lambda t: t[0])
            if style in ("arrayidx", "vmapped") and len(items) >= 2 and (len(items) + sum(t[0] for t in items)) % 2 == 0:
                # index arrays need not be ascending: C[jnp.array([3, 1]), "z"]
                items = items[::-1] if len(items) == 2 else items[1:] + items[:1]
            idxs = [i for i, _, _ in items]
            vals = jnp.stack([v for _, _, v in items])
            if style == "slice":
                # only legal when every index 0..n-1 is present
                n = len(idxs)
                if idxs != list(range(n)) or not _is_full(leaves, pre, post, n):
                    continue
                sub = ChoiceMap.entry(wrapv(vals) if wrap != "mask-true-traced" else Mask(vals, jnp.ones(n, dtype=bool)), *(pre + (slice(None),) + post))
            elif style == "arrayidx":
                if len(idxs) < 1:
                    continue
                mv = vals
                if wrap == "mask-true":
                    mv = Mask(vals, True)
                elif wrap == "mask-true-traced":
                    mv = Mask(vals, jnp.ones(len(idxs), dtype=bool))
                sub = ChoiceMap.entry(mv, *(pre + (jnp.asarray(idxs, dtype=jnp.int32),) + post))
            else:  # vmapped builder
                def mk(i, v, pre=pre, post=post):
                    return ChoiceMap.entry(wrapv(v), *(pre + (i,) + post))

                sub = jax.vmap(mk)(jnp.asarray(idxs, dtype=jnp.int32), vals)
            chm = chm | sub
            for _, a, _ in items:
                done.add(a)
    rest = [(a, v) for a, v in ents if a not in done]
    if style == "nested" and rest:
        # hierarchical construction: entries grouped by their first component, the
        # group's sub-map built recursively and attached with one entry() call, so
        # that unions (Or nodes) sit *below* index levels
        def nest(items):
            groups = {}
            order = []
            for a, v in items:
                if not a:
                    return ChoiceMap.choice(wrapv(v))
                if a[0] not in groups:
                    groups[a[0]] = []
                    order.append(a[0])
                groups[a[0]].append((a[1:], v))
            acc = ChoiceMap.empty()
            for k in order:
                acc = acc | ChoiceMap.entry(nest(groups[k]), k)
            return acc

        chm = chm | nest(rest)
        rest = []
    if style == "dict" and rest and all(a and all(isinstance(c, str) for c in a) for a, _ in rest):
        d = {}
        for a, v in rest:
            d[a if len(a) > 1 else a[0]] = wrapv(v)
        chm = chm | ChoiceMap.d(d)
    elif style == "merge_rev":
        for a, v in reversed(rest):
            chm = ChoiceMap.entry(wrapv(v), *_addr_comps(a)) | chm
    elif style == "extend":
        for a, v in rest:
            chm = chm | ChoiceMap.choice(wrapv(v)).extend(*_addr_comps(a, "arr"))
    else:
        for a, v in rest:
            if a:
                chm = chm | C[_addr_comps(a)].set(wrapv(v))
            else:
                chm = chm | ChoiceMap.choice(wrapv(v))
    for a, junk, traced in falses:
        if traced == "shadow":
            # a valid value OR-ed in *behind* an already constrained address: the
            # earlier (left) operand wins, whatever the encoding of its flag
            if style in ("arrayidx", "slice", "vmapped") and any(isinstance(c, int) for c in a):
                continue  # array-indexed entries and a scalar-indexed one do not share a structure
            m = junk
        else:
            flag = jnp.asarray(False) if traced else False
            m = Mask(junk, flag)
        if a:
            chm = chm | C[_addr_comps(a)].set(m)
        else:
            chm = chm | ChoiceMap.choice(m)
    return chm


def _is_full(leaves, pre, post, n):
    return (pre + (n,) + post) not in leaves and (pre + (n - 1,) + post) in leaves


def argdiffs_for(node, old_args, new_args, enc, retag_unknown=False, trace_level=True, flag_enc=None):
    """Argdiffs for an edit.  For a closure root the trace belongs to the inner
    function, so trace-level APIs need the stored arguments (and keyword dict)
    prepended; `closure.edit` itself takes the remaining ones only."""
    ins, _ = ref.sig(node)
    out = []
    changed_any = False
    for o, nw, t in zip(old_args, new_args, ins):
        v = build.to_jax(nw, t, flag_enc if (flag_enc and t == ["B"]) else enc)
        changed = o != nw
        changed_any = changed_any or changed
        if changed or retag_unknown:
            out.append(Diff.unknown_change(v))
        else:
            out.append(Diff.no_change(v))
    if node["k"] == "closure" and trace_level:
        iins, _ = ref.sig(node["inner"])
        tagf = Diff.unknown_change if retag_unknown else Diff.no_change
        stored = [tagf(build.to_jax(v, t, enc)) for v, t in zip(node["stored"], iins)]
        full = tuple(stored + out)
        if node.get("kwvals"):
            kwp = node["inner"]["kwp"]
            kw = {n: tagf(build.to_jax(node["kwvals"][n], kwp[n], enc)) for n in sorted(kwp)}
            return (full, kw), changed_any
        return full, changed_any
    return tuple(out), changed_any


def tangent_leaves(retdiff):
    return jtu.tree_leaves(retdiff, is_leaf=lambda v: isinstance(v, Diff))


# ------------------------------------------------------------------- the engine


class Rec:
    """A live trace in one replica plus what the reference knows about it."""

    def __init__(self, tr, prog, args, x, lp, visited_lp, rv):
        self.tr = tr
        self.prog = prog
        self.args = args  # JSON
        self.x = x  # ONF assignment (addr -> value)
        self.lp = lp
        self.vlp = visited_lp  # addr -> ref log density
        self.rv = rv
        self.edit = None  # dict(src, bwd, w, old_args) if produced by an edit


class Replica:
    def __init__(self, script, rcfg, probes):
        self.script = script
        self.cfg = rcfg
        self.id = rcfg["id"]
        self.slots = {}
        self.events = []
        self.violations = []
        self.probes = probes
        self.fired = {}

    def perts(self, i):
        p = self.cfg["perts"]
        return list(p[i]) if i < len(p) else []


def count(d, k, n=1):
    d[k] = d.get(k, 0) + n


def _rejects(o):
    return isinstance(o, str) and o.startswith(("raised:", "rejected:")) and o != "raised:none"


class Session:
    def __init__(self, script, only_replicas=None):
        self.script = script
        self.nodes = script["programs"]
        self.node = self.nodes[0]
        self.gfs = [build.build(n) for n in self.nodes]
        self.gf = self.gfs[0]
        self.ins, self.out_t = ref.sig(self.node)
        self.uni = ref.universe_map(self.node)
        self.uni_addrs = sorted(self.uni, key=lambda a: [str(c) for c in a])
        self.cons = constrainable(self.node)
        self.pp = prog_props(self.node)
        self.has_vec = has_kind(self.node, ("vmap", "repeat") + ref.SCAN_LIKE)
        self.has_mask = has_kind(self.node, ("mask", "masked_iterate", "masked_iterate_final"))
        self.swmap = {a: s for a, s in ref.switch_map(self.node).items() if s}
        self.pair_checks = script.get("pid") in ("C38",)
        self.assess_all = script.get("pid") in ("C01", "C02", "C23")
        self.probes = {}
        self.fired = {}
        self.reps = [
            Replica(script, r, self.probes)
            for r in script["replicas"]
            if only_replicas is None or r["id"] in only_replicas
        ]
        self.violations = []
        self.counts = {"steps": 0, "ok": 0, "rejected": {}, "agree_checks": 0}

    # ---- bookkeeping
    def viol(self, oracle, props, step, rep, detail, cls="value"):
        v = Violation(oracle, set(props), step, rep.id, detail, cls)
        self.violations.append(v)
        rep.violations.append(v)

    def fire(self, kind):
        count(self.fired, kind)

    def probe(self, name, n=1):
        count(self.probes, name, n)

    def exempt(self, old_args, new_args, retag, nonempty):
        """Addresses whose enclosing switch may legitimately resample them in this
        edit (documented: an index tagged UnknownChange triggers resampling)."""
        out = set()
        any_change = list(old_args) != list(new_args)
        idx_change = bool(old_args) and old_args[0] != new_args[0]
        for a, sws in self.swmap.items():
            for _, direct in sws:
                if direct:
                    if idx_change or retag:
                        out.add(a)
                elif any_change or retag or nonempty:
                    out.add(a)
        return out

    # ---- reference view of a trace
    def observe(self, tr):
        chm = tr.get_choices()
        return obs.x_from_obs(obs.read_choices(chm, self.uni_addrs))

    def ref_args(self, args):
        return [ref.to_ref(v, t) for v, t in zip(args, self.ins)]

    def jargs(self, args, enc):
        return tuple(build.to_jax(v, t, enc) for v, t in zip(args, self.ins))

    def flag_enc_of(self, rec):
        """In programs with a mask, edits present Boolean (flag) arguments in the
        encoding the trace was created with: the pytree structure of a MaskTrace
        depends on it (known finding KF06), so mixing encodings of one flag across
        operations is left to KF06's witness instead of flooding every session.
        Scripts without "enc_sticky" (hand-written witnesses) mix freely."""
        if not self.script.get("enc_sticky") or not self.has_mask:
            return None
        return getattr(rec, "flag_enc", None)

    def check_trace(self, tr, args, step, rep, what, enc, staged=None):
        """Per-trace invariants: C22 address set, C02 score, C01 assess, retval.
        Returns a Rec (or None if the trace cannot even be observed)."""
        try:
            x = self.observe(tr)
        except Exception as e:  # lookups of valid addresses must not raise
            self.viol("C17.lookup-crash", {"C01", "C17"} | self.pp, step, rep, "%s: reading choices raised %s: %s" % (what, type(e).__name__, str(e)[:200]), "crash")
            return None
        try:
            lp, rv, ctx = ref.density(self.node, self.ref_args(args), x)
        except ref.RefMissing as e:
            self.viol("C22.visited-absent", {"C22", "C01"} | self.pp, step, rep, "%s: visited address %s has no valid value in the trace (choices %s)" % (what, e.addr, sorted(map(str, x))))
            return None
        vis = {v[0]: v[3] for v in ctx.visited}
        extra = sorted(set(x) - set(vis), key=str)
        if extra:
            self.viol("C22.extra-address", {"C22", "C02"} | self.pp, step, rep, "%s: trace holds valid values at unvisited addresses %s" % (what, extra))
        score = np.asarray(tr.get_score())
        if score.shape != () or not obs.close(score, lp):
            self.viol("C02.score", {"C02"} | self.pp, step, rep, "%s: score %s vs reference log-density %.6f" % (what, score, lp))
        mm = obs.cmp_val(tr.get_retval(), rv)
        if mm:
            self.viol("C01.retval", {"C01"} | self.pp, step, rep, "%s: return value differs from the documented semantics run on the trace's own choices: %s" % (what, "; ".join(mm[:3])))
        # stored arguments
        am = [] if self.node["k"] == "closure" else obs.cmp_real(tr.get_args(), self.jargs(args, "arr"))
        if am:
            self.viol("C05.args-stored", {"C05", "C01"}, step, rep, "%s: stored args differ: %s" % (what, am[:2]))
        # C01: assess on own choices and args
        assess_s = None
        if rep.id == 0 or self.assess_all:
            assess_s = self.check_assess(tr, step, rep, what, lp, staged)
        rec = Rec(tr, 0, args, x, lp, vis, rv)
        rec.assess_s = assess_s
        rec.calls = ctx.calls
        return rec

    def check_assess(self, tr, step, rep, what, lp, staged):
        gf = tr.get_gen_fn()
        try:
            if staged == "jit":
                s, r = jax.jit(gf.assess)(tr.get_choices(), tr.get_args())
            else:
                s, r = gf.assess(tr.get_choices(), tr.get_args())
        except Exception as e:
            self.viol("C01.assess-crash", {"C01"} | self.pp | ({"C23"} if staged else set()), step, rep, "%s: assess(trace.get_choices(), trace.get_args()) raised %s: %s" % (what, type(e).__name__, str(e)[:300]), "crash")
            return None
        if not obs.close(s, tr.get_score()):
            self.viol("C01.assess-score", {"C01"} | self.pp, step, rep, "%s: assess score %s vs trace score %s" % (what, np.asarray(s), np.asarray(tr.get_score())))
        if not obs.close(s, lp):
            self.viol("C02.assess-score", {"C02"} | self.pp, step, rep, "%s: assess score %s vs reference %.6f" % (what, np.asarray(s), lp))
        mm = cmp_retvals(r, tr.get_retval())
        if mm:
            self.viol("C01.assess-retval", {"C01"} | self.pp, step, rep, "%s: assess retval vs trace retval: %s" % (what, mm[:2]))
        return np.asarray(s)

    # ---- staging wrapper
    def run_staged(self, rep, perts, fn, key_n, *dyn):
        """Run fn(key, *dyn) under the staging perturbation in perts."""
        key = make_key(key_n)
        if "cache:cold" in perts:
            jax.clear_caches()
            _staging.cached_stage_dynamic.cache_clear()
            self.fire("cache:cold")
        if "stage:jit" in perts:
            self.fire("stage:jit")
            return jax.jit(fn)(key, *dyn), "jit"
        if "stage:vmap" in perts:
            self.fire("stage:vmap")
            B = rep.cfg.get("batch", 3)
            slot = rep.cfg.get("slot", 0) % B
            ks = [make_key(key_n + 7919 * (j + 1)) for j in range(B)]
            ks[slot] = key
            keys = jnp.stack(ks)
            out = jax.vmap(lambda k: fn(k, *dyn))(keys)
            return jtu.tree_map(lambda v: v[slot], out), "vmap"
        if "checkify:on" in perts and not self.has_vec:
            from genjax.checkify import do_checkify
            from jax.experimental import checkify

            self.fire("checkify:on")
            with do_checkify():
                err, out = checkify.checkify(fn)(key, *dyn)
            err.throw()
            # checkify's interpreter hands back raw Python scalars for outputs that
            # are literals of the jaxpr (a JAX artefact, not a GenJAX result):
            # re-wrap numbers as arrays, as jit would return them
            out = jtu.tree_map(lambda v: jnp.asarray(v) if isinstance(v, (int, float)) and not isinstance(v, bool) else v, out)
            return out, "checkify"
        return fn(key, *dyn), None

    def boundary(self, rep, perts, rec, step=-1):
        try:
            return self._boundary(rep, perts, rec)
        except Exception as e:
            # a trace that cannot cross a pytree boundary
            self.viol("C23.boundary-crash", {"C23"}, step, rep, "pushing the trace through %s raised %s: %s" % ([p for p in perts if p.startswith("boundary")], type(e).__name__, str(e)[:300]), "crash")
            return rec.tr

    def _boundary(self, rep, perts, rec):
        tr = rec.tr
        if "boundary:flatten" in perts:
            leaves, td = jtu.tree_flatten(tr)
            tr = jtu.tree_unflatten(td, leaves)
            self.fire("boundary:flatten")
        if "boundary:jit-id" in perts:
            tr = jax.jit(lambda t: t)(tr)
            self.fire("boundary:jit-id")
        return tr

    def run_vmapped_inputs(self, rep, fn, key_n, real, alt, const=()):
        """stage:vmap-args: jax.vmap over keys AND inputs (arguments, constraint
        values); the element in the session's slot has the session's own inputs,
        the others have inputs drawn from the same types.  Returns that slice
        (C23: the i-th slice equals the unbatched call on the i-th inputs)."""
        B = max(2, rep.cfg.get("batch", 3))
        slot = rep.cfg.get("slot", 0) % B
        key = make_key(key_n)
        ks = [make_key(key_n + 7919 * (j + 1)) for j in range(B)]
        ks[slot] = key
        keys = jnp.stack(ks)
        try:
            dyns = [real if j == slot else alt(j) for j in range(B)]
            stacked = jtu.tree_map(lambda *xs: jnp.stack([jnp.asarray(x) for x in xs]), *dyns)
        except Exception:
            # inputs whose pytree structure depends on their values cannot be stacked
            self.probe("vmap-args:unstackable")
            out = jax.vmap(lambda k: fn(k, *const, *real))(keys)
            return jtu.tree_map(lambda v: v[slot], out), "vmap"
        self.fire("stage:vmap-args")
        out = jax.vmap(lambda k, *b: fn(k, *const, *b))(keys, *stacked)
        return jtu.tree_map(lambda v: v[slot], out), "vmap"

    def alt_args(self, key_n, j):
        import random

        return self.jargs(__import__("sim.gen", fromlist=["x"]).sample_args(random.Random(key_n * 31 + j), self.node), "arr")

    def decoy_sibling(self, rep, i, key_n):
        """cache:decoy for closure roots: a second partial application of the same
        function object (other stored arguments) is used through the same GFI
        path and must itself behave like the function with ITS stored arguments."""
        import copy
        import random

        from sim.texpr import sample_value

        r = random.Random(key_n)
        node2 = copy.deepcopy(self.node)
        ins_inner, _ = ref.sig(node2["inner"])
        node2["stored"] = [sample_value(r, t) for t in ins_inner[: len(node2["stored"])]]
        if node2.get("kwvals"):
            node2["kwvals"] = {n: sample_value(r, t) for n, t in node2["inner"]["kwp"].items()}
        args = __import__("sim.gen", fromlist=["x"]).sample_args(r, self.node)
        try:
            gf2 = build.sibling(self.gf, node2)
            tr2 = gf2.simulate(make_key(key_n), self.jargs(args, "py"))
            x2 = self.observe(tr2)
            lp2, rv2, _ = ref.density(node2, self.ref_args(args), x2)
        except Exception as e:
            self.viol("C32.sibling-crash", {"C32"}, i, rep, "a second partial application of the same function (stored %s) raised %s: %s" % (node2["stored"], type(e).__name__, str(e)[:200]), "crash")
            return
        self.fire("cache:decoy")
        self.probe("closure:sibling")
        if self.node["k"] == "closure" and self.node.get("kwvals"):
            # the same through partial_apply followed by keyword arguments:
            # f.partial_apply(*stored)(**kw), for both sets of stored arguments
            try:
                inner, _ = build.INNER_OF[id(self.gf)]
                for nd in (self.node, node2):
                    ins_i, _ = ref.sig(nd["inner"])
                    st_j = [build.to_jax(v, t) for v, t in zip(nd["stored"], ins_i)]
                    kwp = nd["inner"]["kwp"]
                    kw_j = {n: build.to_jax(nd["kwvals"][n], kwp[n]) for n in sorted(kwp)}
                    tr3 = inner.partial_apply(*st_j)(**kw_j).simulate(make_key(key_n), self.jargs(args, "py"))
                    x3 = self.observe(tr3)
                    lp3, _, _ = ref.density(nd, self.ref_args(args), x3)
                    self.probe("closure:partial-then-kwargs")
                    if np.isfinite(lp3) and not obs.close(tr3.get_score(), lp3):
                        self.viol("C32.partial-kwargs", {"C32"}, i, rep, "f.partial_apply(%s)(**%s): score %s vs %.6f for the function with these stored arguments" % (nd["stored"], nd["kwvals"], np.asarray(tr3.get_score()), lp3))
            except Exception as e:
                self.viol("C32.sibling-crash", {"C32"}, i, rep, "partial_apply(...)(**kw) raised %s: %s" % (type(e).__name__, str(e)[:200]), "crash")
        if np.isfinite(lp2) and not obs.close(tr2.get_score(), lp2):
            self.viol("C32.sibling-closure", {"C32"}, i, rep, "second partial application of the same function with stored %s kw %s: score %s vs %.6f with its own stored arguments (the first application stores %s)" % (node2["stored"], node2.get("kwvals"), np.asarray(tr2.get_score()), lp2, self.node["stored"]))

    def decoy(self, rep, perts, key_n, i=0):
        if "cache:decoy" in perts and self.node["k"] in ("closure", "partial") and id(self.gf) in build.INNER_OF:
            self.decoy_sibling(rep, i, key_n)
        if "cache:decoy" in perts and len(self.gfs) > 1:
            try:
                dn = self.nodes[1]
                import random

                args = build.args_to_jax(dn, __import__("sim.gen", fromlist=["x"]).sample_args(random.Random(key_n), dn))
                self.gfs[1].simulate(make_key(key_n), args)
                self.fire("cache:decoy")
            except Exception:
                pass

    # ---- steps
    def exec_step(self, rep, i, st):
        op = st["op"]
        perts = rep.perts(i)
        enc = "arr" if "enc:arr" in perts else "py"
        if enc == "arr":
            self.fire("enc:arr")
        self.decoy(rep, perts, st.get("key", 0), i)
        if op in ("simulate", "importance"):
            return self.step_create(rep, i, st, perts, enc)
        if op in ("update", "regenerate", "index_edit", "static_edit", "empty_edit"):
            ev = self.step_edit(rep, i, st, perts, enc)
            if self.script.get("pid") == "C34" and ev.get("outcome") == "ok" and self.script.get("missing_sites"):
                # C34 profile: the sub-traces of every edited trace are inspected at once
                self.step_subtrace(rep, i, {"src": st["out"]})
            return ev
        if op == "undo":
            return self.step_undo(rep, i, st, perts, enc)
        if op == "project":
            return self.step_project(rep, i, st, perts)
        if op == "subtrace":
            return self.step_subtrace(rep, i, st)
        if op == "abort":
            return self.step_abort(rep, i, st, perts)
        raise HarnessError("unknown op %s" % op)

    def step_create(self, rep, i, st, perts, enc):
        args = st["args"]
        jargs = self.jargs(args, enc)
        gf = self.gf
        ev = {"op": st["op"]}
        if st["op"] == "simulate":
            try:
                if "stage:vmap-args" in perts:
                    tr, staged = self.run_vmapped_inputs(rep, lambda k, a: gf.simulate(k, a), st["key"], (self.jargs(args, "arr"),), lambda j: (self.alt_args(st["key"], j),))
                else:
                    tr, staged = self.run_staged(rep, perts, lambda k: gf.simulate(k, jargs), st["key"])
            except Exception as e:
                self.viol("C04.simulate-crash", {"C04", "C01"} | self.pp | ({"C23"} if perts else set()), i, rep, "simulate raised %s: %s [perts %s]" % (type(e).__name__, str(e)[:300], perts), "crash")
                return {"op": "simulate", "outcome": "crash"}
            rec = self.check_trace(tr, args, i, rep, "simulate", enc, staged)
            if "key:replay" in perts:
                self.fire("key:replay")
                tr2, _ = self.run_staged(rep, [p for p in perts if p.startswith("stage")], lambda k: gf.simulate(k, jargs), st["key"])
                d = obs.cmp_real(tr, tr2, "trace", exact=True)
                if d:
                    self.viol("C04.replay", {"C04"}, i, rep, "same key, same args, same context: results differ: %s" % d[:2], "diverge")
            # C38: propose == simulate for the same key (plain context only)
            if not perts and rec is not None and self.pair_checks:
                try:
                    chm, sc, rv = gf.propose(make_key(st["key"]), jargs)
                    d = obs.cmp_real(sc, tr.get_score(), "score", exact=True) + cmp_retvals(rv, tr.get_retval(), exact=True)
                    px = obs.x_from_obs(obs.read_choices(chm, self.uni_addrs))
                    if d or not same_x(px, rec.x):
                        self.viol("C38.propose", {"C38"}, i, rep, "propose differs from simulate under the same key: %s" % (d[:2],))
                except Exception as e:
                    self.viol("C38.propose-crash", {"C38"}, i, rep, "propose raised %s: %s" % (type(e).__name__, str(e)[:200]), "crash")
            # C32: calling a closure (its call syntax means "simulate, give me the
            # return value") with the keyword arguments supplied at call time
            # instead of stored ones merges them the same way
            if not perts and rec is not None and "C32" in self.pp and self.node["k"] == "closure" and id(gf) in build.INNER_OF:
                try:
                    inner, _ = build.INNER_OF[id(gf)]
                    ins_inner, _ = ref.sig(self.node["inner"])
                    stored = [build.to_jax(v, t) for v, t in zip(self.node["stored"], ins_inner)]
                    kw = {}
                    if self.node.get("kwvals"):
                        kwp = self.node["inner"]["kwp"]
                        kw = {n: build.to_jax(self.node["kwvals"][n], kwp[n]) for n in sorted(kwp)}
                    rv2 = inner(*stored)(make_key(st["key"]), *jargs, **kw)
                    self.probe("closure:call-time-kwargs" if kw else "closure:call")
                    d = cmp_retvals(rv2, tr.get_retval(), exact=True)
                    if d:
                        self.viol("C32.call", {"C32"}, i, rep, "closure(key, *rest, **kw) returned something else than simulate of the closure that stores kw %s: %s" % (sorted(kw), d[:2]))
                except Exception as e:
                    self.viol("C32.call-crash", {"C32"}, i, rep, "closure(key, *rest, **kw) raised %s: %s" % (type(e).__name__, str(e)[:200]), "crash")
        else:
            cons = st["constraint"]
            wrap, falses = self.mask_encoding(perts, cons, st["key"])
            try:
                chm = build_chm(cons, self.cons, st.get("build", "set"), wrap, falses)
            except Exception as e:
                raise HarnessError("constraint build failed: %s: %s" % (type(e).__name__, e))
            try:
                if "stage:vmap-args" in perts:
                    import random

                    from sim.texpr import support_value

                    def alt(j):
                        r = random.Random(st["key"] * 17 + j)
                        cj = [[a, support_value(r, self.cons[tuple(a)])] for a, _ in cons]
                        return (build_chm(cj, self.cons, st.get("build", "set"), wrap, falses), self.alt_args(st["key"], j))

                    (tr, w), staged = self.run_vmapped_inputs(rep, lambda k, c, a: gf.importance(k, c, a), st["key"], (chm, self.jargs(args, "arr")), alt)
                else:
                    (tr, w), staged = self.run_staged(rep, perts, lambda k, c: gf.importance(k, c, jargs), st["key"], chm)
            except Exception as e:
                self.viol("C03.importance-crash", {"C03"} | self.pp | ({"C23"} if any(p.startswith(("stage", "cache")) for p in perts) else set()) | ({"C35"} if wrap or falses else set()), i, rep, "importance raised %s: %s [perts %s build %s]" % (type(e).__name__, str(e)[:300], perts, st.get("build")), "crash")
                return {"op": "importance", "outcome": "crash"}
            rec = self.check_trace(tr, args, i, rep, "importance", enc, staged)
            ev["w"] = np.asarray(w)
            if rec is not None:
                self.check_importance(rec, cons, w, i, rep)
                if not perts and self.pair_checks:
                    # C38: importance == generate
                    try:
                        tr2, w2 = gf.generate(make_key(st["key"]), chm, jargs)
                        d = obs.cmp_real((tr.get_score(), w), (tr2.get_score(), w2), "gen", exact=True)
                        if d or not same_x(self.observe(tr2), rec.x):
                            self.viol("C38.generate", {"C38"}, i, rep, "importance differs from generate: %s" % d[:2])
                    except Exception as e:
                        self.viol("C38.generate-crash", {"C38"}, i, rep, "generate raised %s" % type(e).__name__, "crash")
        if rec is None:
            return {"op": st["op"], "outcome": "unobservable"}
        rec.flag_enc = enc
        rep.slots[st["out"]] = rec
        ev.update(trace_event(rec))
        ev["outcome"] = "ok"
        return ev

    def mask_encoding(self, perts, cons, key_n):
        wrap = None
        falses = []
        if "enc:mask-true" in perts:
            wrap = "mask-true"
            self.fire("enc:mask-true")
        if "enc:mask-true-traced" in perts:
            wrap = "mask-true-traced"
            self.fire("enc:mask-true-traced")
        if wrap == "mask-true-traced" and cons and self.script.get("or_shadow"):
            import random

            r = random.Random(key_n + 1)
            for a, _ in cons[:3]:
                leaf = self.cons.get(tuple(a))
                if leaf is not None and r.random() < 0.9:
                    falses.append((tuple(a), leaf_to_jax(leaf, _junk_value(leaf)), "shadow"))
                    self.probe("enc:or-shadow")
        if "enc:mask-false" in perts:
            have = {tuple(a) for a, _ in cons}
            # KF08: a False-masked constraint on the choice that selects a switch's
            # branch makes the switch resample (the masked update tags the choice
            # UnknownChange): explored by KF08's witness only
            feeders = set() if self.script.get("mask_false_on_index") else ref.index_feeders(self.node)
            free = [
                a
                for a in self.uni_addrs
                if a in self.cons
                and static_part(a) not in feeders
                and a not in have
                and a
                and not any(h[: len(a)] == a or a[: len(h)] == h for h in have)
                # ... nor on static parts: under a vector combinator the entries at
                # different indices are merged per index level
                and not any(
                    static_part(h) != static_part(a)
                    and (static_part(h)[: len(static_part(a))] == static_part(a) or static_part(a)[: len(static_part(h))] == static_part(h))
                    for h in have
                )
            ]
            # must not shadow: an address is "free" only if no constrained address
            # shares its static path with other indices grouped by the builder
            if free:
                import random

                r = random.Random(key_n)
                pick = [a for a in free if r.random() < 0.5][:3] or [free[0]]
                # mutually prefix-free, also on static parts (a bare-distribution
                # branch next to a structured branch at the same address)
                sp_ = {a: static_part(a) for a in pick}
                pick = [
                    a
                    for a in pick
                    if not any(b != a and (b[: len(a)] == a or (sp_[b] != sp_[a] and sp_[b][: len(sp_[a])] == sp_[a])) for b in pick)
                ]
                for a in pick:
                    leaf = self.cons[a]
                    junk = leaf_to_jax(leaf, _junk_value(leaf))
                    falses.append((a, junk, r.random() < 0.6))
                self.fire("enc:mask-false")
        return wrap, falses

    def check_importance(self, rec, cons, w, i, rep):
        w = np.asarray(w)
        if w.shape != ():
            self.viol("C03.weight-shape", {"C03"}, i, rep, "weight has shape %s" % (w.shape,))
            return
        expect = 0.0
        n_vis = 0
        for a, v in cons:
            a = tuple(a)
            if a in rec.vlp:
                n_vis += 1
                got = rec.x.get(a)
                if not same_value(got, v):
                    self.viol("C03.constraint-not-installed", {"C03"} | self.pp, i, rep, "constrained %s=%r but trace holds %r" % (a, v, got))
                expect += rec.vlp[a]
        if not cons:
            self.probe("importance:empty")
            if float(w) != 0.0:
                self.viol("C03.empty-weight", {"C03"}, i, rep, "empty constraint but weight %s" % w)
        elif n_vis == len(rec.vlp) and n_vis > 0:
            self.probe("importance:full")
            if not obs.close(w, rec.lp):
                self.viol("C03.full-weight", {"C03"} | self.pp, i, rep, "all choices constrained: weight %s vs score %.6f" % (w, rec.lp))
        else:
            self.probe("importance:partial")
        if not obs.close(w, expect):
            self.viol("C03.weight", {"C03"} | self.pp, i, rep, "weight %s vs sum of constrained log-densities %.6f (constrained&visited %d of %d)" % (w, expect, n_vis, len(cons)))

    # ---- edits
    def make_request(self, st, perts, enc):
        """-> (request object, description for C-oracles)"""
        op = st["op"]
        if op == "update":
            wrap, falses = self.mask_encoding(perts, st["constraint"], st["key"])
            chm = build_chm(st["constraint"], self.cons, st.get("build", "set"), wrap, falses)
            req = Update(chm)
        elif op == "regenerate":
            req = Regenerate(sel_build(st["sel"]))
        elif op == "empty_edit":
            req = EmptyRequest()
        elif op == "index_edit":
            core = unwrap(self.node)
            inner = core.get("inner", self.node)
            if st["sub"] == "update":
                sub = Update(build_chm(st["constraint"], constrainable(inner), "set"))
            elif st["sub"] == "regenerate":
                sub = Regenerate(sel_build(st["sel"]))
            if st["sub"] == "static":
                sub = self.static_request(static_root(inner), st["subs"])
            idx = st["idx"] if st.get("idx_enc") == "int" else jnp.asarray(st["idx"], dtype=jnp.int32)
            req = IndexRequest(jnp.asarray(st["idx"], dtype=jnp.int32) if True else idx, sub)
        elif op == "static_edit":
            req = self.static_request(static_root(self.node), st["subs"])
        else:
            raise HarnessError(op)
        if st.get("annotate"):
            req = DiffAnnotate(req)
        return req

    def static_request(self, sr, subs):
        d = {}
        for ent in subs:
            a = ent["addr"]
            key = a[0] if len(a) == 1 else tuple(a)
            if ent["kind"] == "update":
                callee = [s for s in sr["stmts"] if s["addr"] == a][0]["callee"]
                d[key] = Update(build_chm(ent["constraint"], constrainable(callee), "set"))
            elif ent["kind"] == "regenerate":
                d[key] = Regenerate(sel_build(ent["sel"]))
            elif ent["kind"] == "rejuv":
                # a custom-proposal move on one normal call site: the only request
                # kind whose weight is not the score change (proposal terms)
                import genjax
                from genjax._src.inference.requests.rejuvenate import Rejuvenate

                ca, cb, cs = ent["a"], ent["b"], ent["s"]
                d[key] = Rejuvenate(genjax.normal, lambda chm, ca=ca, cb=cb, cs=cs: (ca * chm.get_value() + cb, cs))
            else:
                d[key] = EmptyRequest()
        return StaticRequest(d)

    def apply_edit(self, rep, st, perts, tr, req, argdiffs):
        api = st.get("api", "req.edit")
        gf = tr.get_gen_fn()
        direct = (st["op"] == "update" and api == "gf.update" and not st.get("annotate")) or (
            api in ("gf.edit", "gf.update") and not isinstance(req, (EmptyRequest, DiffAnnotate))
        )
        if self.node["k"] == "closure" and direct:
            # the closure object itself: takes the remaining arguments only (C32)
            gf = self.gf
            argdiffs = self._closure_argdiffs
            self.probe("closure:direct-edit")
        if st["op"] == "update" and api in ("tr.update", "gf.update") and not st.get("annotate"):
            chm = req.constraint

            if api == "tr.update":
                def fn(k, t, c, ad):
                    nt, w, rd, bc = t.update(k, c, ad)
                    return nt, w, rd, Update(bc)
            else:
                def fn(k, t, c, ad):
                    nt, w, rd, bc = gf.update(k, t, c, ad)
                    return nt, w, rd, Update(bc)

            if "stage:vmap-args" in perts:
                return self.run_vmapped_inputs(rep, fn, st["key"], (chm, argdiffs), self.alt_update_inputs(st, perts, False), const=(tr,))
            return self.run_staged(rep, perts, fn, st["key"], tr, chm, argdiffs)
        if api in ("tr.edit", "tr.update"):
            fn = lambda k, t, r, ad: t.edit(k, r, ad)  # noqa: E731
        elif api in ("gf.edit", "gf.update") and not isinstance(req, (EmptyRequest, DiffAnnotate)):
            fn = lambda k, t, r, ad: gf.edit(k, t, r, ad)  # noqa: E731
        else:
            fn = lambda k, t, r, ad: r.edit(k, t, ad)  # noqa: E731
        if "stage:vmap-args" in perts and st["op"] == "update":
            return self.run_vmapped_inputs(rep, fn, st["key"], (req, argdiffs), self.alt_update_inputs(st, perts, True), const=(tr,))
        return self.run_staged(rep, perts, fn, st["key"], tr, req, argdiffs)

    def alt_update_inputs(self, st, perts, as_request):
        """Inputs of the other batch elements of a vmapped update: other constraint
        values at the same addresses, other values for the arguments that change."""
        import random

        from sim.texpr import support_value

        old, new, enc, retag, fe, closure_level = self._edit_ctx

        def alt(j):
            r = random.Random(st["key"] * 13 + j)
            cj = [[a, support_value(r, self.cons[tuple(a)])] for a, _ in st["constraint"]]
            wrap, falses = self.mask_encoding(perts, st["constraint"], st["key"])
            chm = build_chm(cj, self.cons, st.get("build", "set"), wrap, falses)
            other = __import__("sim.gen", fromlist=["x"]).sample_args(r, self.node)
            nj = [nw if a == nw else o2 for a, nw, o2 in zip(old, new, other)]
            ad, _ = argdiffs_for(self.node, old, nj, enc, retag, trace_level=not closure_level, flag_enc=fe)
            if not as_request:
                return (chm, ad)
            req = Update(chm)
            if st.get("annotate"):
                req = DiffAnnotate(req)
            return (req, ad)

        return alt

    def step_edit(self, rep, i, st, perts, enc):
        src = rep.slots.get(st["src"])
        if src is None:
            return {"op": st["op"], "outcome": "skipped:no-src"}
        op = st["op"]
        tr = self.boundary(rep, perts, src, i)
        new_args = st["args"] if st["args"] is not None else src.args
        retag = "tag:unknown" in perts and op not in ("index_edit",) and not has_kind(self.node, ("switch", "or_else"))
        if retag:
            self.fire("tag:unknown")
        fe = self.flag_enc_of(src)
        argdiffs, changed = argdiffs_for(self.node, src.args, new_args, enc, retag, flag_enc=fe)
        self._closure_argdiffs, _ = argdiffs_for(self.node, src.args, new_args, enc, retag, trace_level=False, flag_enc=fe)
        self._edit_ctx = (list(src.args), list(new_args), enc, retag, fe, False)
        try:
            req = self.make_request(st, perts, enc)
        except HarnessError:
            raise
        except Exception as e:
            raise HarnessError("request build failed: %s: %s\n%s" % (type(e).__name__, e, traceback.format_exc()[-800:]))
        expect = st.get("expect", "ok")
        crash_props = {"update": {"C05"}, "regenerate": {"C07"}, "index_edit": {"C06", "C11", "C12"}, "static_edit": {"C38"}, "empty_edit": {"C38"}}[op]
        try:
            (ntr, w, rd, bwd), staged = self.apply_edit(rep, st, perts, tr, req, argdiffs)
        except Exception as e:
            if expect == "reject":
                count(self.counts["rejected"], type(e).__name__)
                return {"op": op, "outcome": "rejected:" + type(e).__name__}
            self.viol("%s.edit-crash" % sorted(crash_props)[0], crash_props | self.pp | ({"C23"} if any(p.startswith(("stage", "boundary", "cache")) for p in perts) else set()) | ({"C08"} if retag else set()) | ({"C35"} if any(p.startswith("enc:mask") for p in perts) else set()), i, rep, "%s (api %s, argchange %s) raised %s: %s [perts %s]" % (op, st.get("api"), changed, type(e).__name__, str(e)[:300], perts), "crash")
            return {"op": op, "outcome": "crash"}
        if expect == "reject":
            # a request outside the acceptance table went through: no listed
            # property speaks about its result, so it is neither checked nor kept
            self.probe("unsupported-but-accepted")
            return {"op": op, "outcome": "accepted-unsupported"}
        rec = self.check_trace(ntr, new_args, i, rep, op, enc, staged)
        ev = {"op": op, "w": np.asarray(w)}
        if rec is None:
            ev["outcome"] = "unobservable"
            return ev
        rec.edit = {"src": src, "bwd": bwd, "w": np.asarray(w), "old_args": src.args, "changed": changed, "op": op}
        if any(e.get("kind") == "rejuv" for e in st.get("subs") or []):
            rec.edit["no_inverse"] = True
        rec.flag_enc = getattr(src, "flag_enc", None)
        rep.slots[st["out"]] = rec
        ev.update(trace_event(rec))
        ev["outcome"] = "ok"
        ev["bwd"] = bwd
        self.check_edit(rep, i, st, src, rec, w, rd, bwd, changed, perts)
        if "key:replay" in perts:
            self.fire("key:replay")
            (ntr2, w2, _, _), _ = self.apply_edit(rep, st, [p for p in perts if p.startswith("stage")], tr, req, argdiffs)
            d = obs.cmp_real((ntr, w), (ntr2, w2), "edit", exact=True)
            if d:
                self.viol("C04.replay-edit", {"C04"}, i, rep, "same key/trace/request: results differ: %s" % d[:2], "diverge")
        return ev

    def check_edit(self, rep, i, st, src, rec, w, rd, bwd, changed, perts):
        op = st["op"]
        w = np.asarray(w)
        old_vis = set(src.vlp)
        new_vis = set(rec.vlp)
        if w.shape != ():
            self.viol("C05.weight-shape", {"C05", "C07"}, i, rep, "%s weight shape %s" % (op, w.shape))
            return
        # C08 (i): NoChange leaves carry the previous value
        self.check_nochange(rep, i, src, rec, rd)
        dlp = rec.lp - src.lp
        wok = bool(np.isfinite(rec.lp) and np.isfinite(src.lp))
        if not wok:
            # an old choice fell outside the support its new parameters define
            # (density 0): weight identities are not meaningful (inf - inf); the
            # value checks below still apply
            self.probe("edit:nonfinite-score")
        nonempty = bool(st.get("constraint")) or op in ("regenerate", "static_edit", "index_edit")
        ex = self.exempt(src.args, rec.args, "tag:unknown" in perts, nonempty)
        if ex & new_vis:
            self.probe("edit:switch-resample-exempt")
        old_vis = old_vis - ex
        if op == "update":
            cons = {tuple(a): v for a, v in st["constraint"]}
            for a, v in cons.items():
                if a in new_vis and not same_value(rec.x.get(a), v):
                    self.viol("C05.constraint-not-installed", {"C05"} | self.pp, i, rep, "update constrained %s=%r but new trace holds %r" % (a, v, rec.x.get(a)))
            for a in sorted((old_vis & new_vis) - set(cons), key=str):
                if not same_bits(rec.x[a], src.x[a]):
                    self.viol("C05.unconstrained-changed", {"C05"} | self.pp, i, rep, "unconstrained address %s changed from %r to %r" % (a, src.x[a], rec.x[a]))
            fresh = new_vis - old_vis - set(cons)
            if not fresh:
                self.probe("update:no-fresh")
                if (wok and not obs.close(w, dlp)):
                    self.viol("C05.weight", {"C05"} | self.pp | ({"C14"} if "C14" in self.pp else set()), i, rep, "update weight %s vs new score - old score = %.6f (argchange %s, visited set %s)" % (w, dlp, changed, "same" if old_vis == new_vis else "changed"))
            else:
                self.probe("update:fresh-choices")
            if old_vis != new_vis:
                self.probe("update:visited-set-changed")
            # backward constraint = previous values at overwritten addresses
            if isinstance(bwd, Update) and old_vis == new_vis and not ex:
                try:
                    bx = obs.x_from_obs(obs.read_choices(bwd.constraint, self.uni_addrs))
                    want = {a: src.x[a] for a in cons if a in old_vis}
                    if set(bx) != set(want) or any(not same_bits(bx[a], want[a]) for a in want):
                        self.viol("C05.discard", {"C05"} | self.pp, i, rep, "backward constraint %s vs previous values at overwritten addresses %s" % (fmt_x(bx), fmt_x(want)))
                except Exception as e:
                    self.viol("C05.discard-crash", {"C05"}, i, rep, "reading backward constraint raised %s: %s" % (type(e).__name__, str(e)[:200]), "crash")
        elif op == "regenerate":
            sel = st["sel"]
            for a in sorted(old_vis & new_vis, key=str):
                if not sel_member(sel, static_part(a)) and not same_bits(rec.x[a], src.x[a]):
                    self.viol("C07.unselected-changed", {"C07"} | self.pp, i, rep, "unselected %s changed %r -> %r (sel %s)" % (a, src.x[a], rec.x[a], sel))
            if (wok and not obs.close(w, dlp)):
                self.viol("C07.weight", {"C07"} | self.pp, i, rep, "regenerate weight %s vs new - old score %.6f" % (w, dlp))
            # selected choices are redrawn: a continuous selected choice that keeps
            # its exact bit pattern was not resampled (fresh key material per step)
            for a in sorted(old_vis & new_vis, key=str):
                leaf = self.uni.get(a)
                if leaf is not None and leaf["d"] in ("normal", "uniform", "exponential", "beta", "gamma", "normalv") and sel_member(sel, static_part(a)):
                    self.probe("regenerate:selected-continuous")
                    if same_bits(rec.x[a], src.x[a]):
                        self.viol("C07.selected-not-resampled", {"C07"} | self.pp, i, rep, "selected %s kept its value %r (sel %s)" % (a, src.x[a], sel))
            none_sel = not any(sel_member(sel, static_part(a)) for a in old_vis)
            if none_sel and not changed:
                self.probe("regenerate:nothing-selected")
                if float(w) != 0.0 and not obs.close(w, 0.0, 1e-6):
                    self.viol("C07.empty-weight", {"C07"}, i, rep, "nothing selected, args unchanged, weight %s" % w)
                if not same_x(rec.x, src.x, bits=True):
                    self.viol("C07.empty-changed", {"C07"}, i, rep, "nothing selected but choices changed")
            else:
                self.probe("regenerate:some-selected")
        elif op == "empty_edit":
            if not changed and "tag:unknown" not in perts:
                if float(w) != 0.0:
                    self.viol("C38.empty-weight", {"C38"}, i, rep, "EmptyRequest with unchanged args: weight %s" % w)
            shared = old_vis & new_vis
            if any(not same_bits(rec.x[a], src.x[a]) for a in shared):
                self.viol("C38.empty-changed", {"C38"}, i, rep, "EmptyRequest changed choices")
            if (new_vis - old_vis) and (wok and not obs.close(w, dlp)):
                pass
            if not (new_vis - old_vis) and (wok and not obs.close(w, dlp)):
                self.viol("C38.empty-weight-delta", {"C38"}, i, rep, "EmptyRequest weight %s vs score change %.6f" % (w, dlp))
        elif op == "index_edit":
            idx = st["idx"]
            core = unwrap(self.node)
            pos = 0
            for a in sorted(old_vis & new_vis, key=str):
                ints = [c for c in a if isinstance(c, int)]
                if ints and ints[0] != idx and core["k"] in ("vmap", "repeat"):
                    if not same_bits(rec.x[a], src.x[a]):
                        self.viol("C11.index-leak", {"C11"}, i, rep, "IndexRequest at %d changed element address %s" % (idx, a))
            if st["sub"] == "static":
                pass
            elif st["sub"] == "update":
                cons = {(idx,) + tuple(a): v for a, v in st["constraint"]}
                for a, v in cons.items():
                    if a in new_vis and not same_value(rec.x.get(a), v):
                        self.viol("C12.index-constraint", {"C12", "C11"}, i, rep, "index edit constrained %s=%r, trace holds %r" % (a, v, rec.x.get(a)))
                fresh = new_vis - old_vis - set(cons)
                if not fresh and (wok and not obs.close(w, dlp)):
                    self.viol("C12.index-weight", {"C12", "C11", "C05"}, i, rep, "index edit weight %s vs score change %.6f" % (w, dlp))
            else:
                if (wok and not obs.close(w, dlp)):
                    self.viol("C12.index-weight", {"C12", "C11", "C07"}, i, rep, "index regenerate weight %s vs score change %.6f" % (w, dlp))
            n = core.get("n", 1)
            self.probe("index:first" if idx == 0 else ("index:last" if idx == n - 1 else "index:middle"))
        if op == "static_edit" or (op == "index_edit" and st["sub"] == "static"):
            lead = () if op == "static_edit" else (st["idx"],)
            addressed = {lead + tuple(e["addr"]): e for e in st["subs"]}
            rejuv = any(e["kind"] == "rejuv" for e in st["subs"])
            if rejuv:
                self.probe("static:rejuvenate")
            for a in sorted(old_vis & new_vis, key=str):
                if a[: len(lead)] != lead:
                    continue
                hit = None
                for pre, e in addressed.items():
                    if a[: len(pre)] == pre:
                        hit = (pre, e)
                if hit is None or hit[1]["kind"] == "empty":
                    if not same_bits(rec.x[a], src.x[a]):
                        self.viol("C38.static-unaddressed-changed", {"C38"}, i, rep, "StaticRequest changed unaddressed %s" % (a,))
                elif hit[1]["kind"] == "update":
                    sub = {hit[0] + tuple(x): v for x, v in hit[1]["constraint"]}
                    if a in sub and not same_value(rec.x[a], sub[a]):
                        self.viol("C38.static-update", {"C38"}, i, rep, "StaticRequest Update at %s not installed" % (a,))
                    if a not in sub and not same_bits(rec.x[a], src.x[a]):
                        self.viol("C38.static-update-leak", {"C38"}, i, rep, "StaticRequest Update changed %s" % (a,))
                elif hit[1]["kind"] == "regenerate":
                    rel = static_part(a[len(hit[0]) :])
                    if not sel_member(hit[1]["sel"], rel) and not same_bits(rec.x[a], src.x[a]):
                        self.viol("C38.static-regen-leak", {"C38", "C07"}, i, rep, "StaticRequest Regenerate changed unselected %s" % (a,))
            fresh = new_vis - old_vis
            # (the weight of a Rejuvenate holds proposal terms: no identity claimed)
            if not fresh and not rejuv and (wok and not obs.close(w, dlp)):
                self.viol("C38.static-weight", {"C38"}, i, rep, "StaticRequest weight %s vs score change %.6f" % (w, dlp))

    def check_nochange(self, rep, i, src, rec, rd):
        try:
            diffs = tangent_leaves(rd)
        except Exception:
            return
        prev = jtu.tree_leaves(src.tr.get_retval())
        prim = []
        ok = True
        for d in diffs:
            if not isinstance(d, Diff):
                ok = False
                break
            pl = jtu.tree_leaves(d.primal)
            prim.append((pl, d.tangent))
        if not ok:
            return
        flat = [(p, t) for pl, t in prim for p in pl]
        if len(flat) != len(prev):
            self.probe("nochange:structure-skip")
            return
        for j, ((p, t), q) in enumerate(zip(flat, prev)):
            if t == NoChange:
                self.probe("nochange:leaf-checked")
                a, b = np.asarray(p), np.asarray(q)
                if a.shape != b.shape or not obs.close(a.astype(np.float64), b.astype(np.float64), 2e-6):
                    self.viol("C08.nochange-value", {"C08"} | ({"C15"} if "C15" in self.pp else set()), i, rep, "retdiff leaf %d tagged NoChange but value %s != previous %s" % (j, a, b))
            else:
                self.probe("nochange:unknown-leaf")
        # the diff's primal must be the new trace's return value
        d = obs.cmp_real(Diff.tree_primal(rd), rec.tr.get_retval(), "retdiff")
        if d:
            self.viol("C15.retdiff-primal", {"C15", "C08", "C01"}, i, rep, "retdiff primal differs from new trace retval: %s" % d[:2])

    def step_undo(self, rep, i, st, perts, enc):
        tgt = rep.slots.get(st["of"])
        if tgt is None or tgt.edit is None:
            return {"op": "undo", "outcome": "skipped:no-edit"}
        e = tgt.edit
        if e.get("no_inverse"):
            # the backward request of a Rejuvenate is another Rejuvenate, not an inverse
            return {"op": "undo", "outcome": "skipped:no-inverse"}
        src = e["src"]
        bwd = e["bwd"]
        tr = self.boundary(rep, perts, tgt, i)
        argdiffs, changed = argdiffs_for(self.node, tgt.args, src.args, enc, False, flag_enc=self.flag_enc_of(tgt))
        try:
            (rtr, w, rd, bwd2), staged = self.run_staged(rep, perts, lambda k, t, r, ad: r.edit(k, t, ad), st["key"], tr, bwd, argdiffs)
        except Exception as ex:
            if os.environ.get("VERIF_TRACE"):
                traceback.print_exc()
            self.viol("C06.undo-crash", {"C06"} | self.pp | ({"C23"} if perts else set()), i, rep, "applying the backward request (%s) of a %s raised %s: %s" % (type(bwd).__name__, e["op"], type(ex).__name__, str(ex)[:300]), "crash")
            return {"op": "undo", "outcome": "crash"}
        rec = self.check_trace(rtr, src.args, i, rep, "undo", enc, staged)
        ev = {"op": "undo", "w": np.asarray(w)}
        if rec is None:
            ev["outcome"] = "unobservable"
            return ev
        self.probe("undo:of-" + e["op"])
        up = {"C06"} | self.pp | ({"C38"} if e["op"] in ("static_edit", "empty_edit") else set())
        if e["changed"]:
            self.probe("undo:after-argchange")
        if not same_x(rec.x, src.x, bits=False):
            self.viol("C06.undo-choices", up, i, rep, "undo of %s did not restore choices: %s vs original %s" % (e["op"], fmt_x(rec.x), fmt_x(src.x)))
        if not obs.close(rec.tr.get_score(), src.tr.get_score()):
            self.viol("C06.undo-score", up, i, rep, "undo of %s score %s vs original %s" % (e["op"], np.asarray(rec.tr.get_score()), np.asarray(src.tr.get_score())))
        d = cmp_retvals(rec.tr.get_retval(), src.tr.get_retval())
        if d:
            self.viol("C06.undo-retval", up, i, rep, "undo of %s retval differs: %s" % (e["op"], d[:2]))
        if np.isfinite(np.asarray(w)) and np.isfinite(e["w"]) and not obs.close(w, -e["w"]):
            self.viol("C06.undo-weight", up, i, rep, "undo weight %s vs -forward weight %s (op %s)" % (np.asarray(w), -e["w"], e["op"]))
        rec.edit = {"src": tgt, "bwd": bwd2, "w": np.asarray(w), "old_args": tgt.args, "changed": changed, "op": "undo"}
        rec.flag_enc = getattr(tgt, "flag_enc", None)
        rep.slots[st["out"]] = rec
        ev.update(trace_event(rec))
        ev["outcome"] = "ok"
        return ev

    def step_project(self, rep, i, st, perts):
        src = rep.slots.get(st["src"])
        if src is None:
            return {"op": "project", "outcome": "skipped:no-src"}
        sel = sel_build(st["sel"])
        tr = self.boundary(rep, perts, src, i)
        gf = tr.get_gen_fn()
        if st.get("api") == "gf":
            fn = lambda k, t, s: gf.project(k, t, s)  # noqa: E731
        else:
            fn = lambda k, t, s: t.project(k, s)  # noqa: E731
        try:
            p, _ = self.run_staged(rep, perts, fn, st["key"], tr, sel)
        except Exception as e:
            if st.get("expect") == "reject":
                count(self.counts["rejected"], type(e).__name__)
                return {"op": "project", "outcome": "rejected:" + type(e).__name__}
            self.viol("C10.project-crash", {"C10"} | ({"C23"} if perts else set()), i, rep, "project raised %s: %s" % (type(e).__name__, str(e)[:300]), "crash")
            return {"op": "project", "outcome": "crash"}
        if st.get("expect") == "reject":
            return {"op": "project", "outcome": "ok-unsupported"}
        want = sum(lp for a, lp in src.vlp.items() if sel_member(st["sel"], static_part(a)))
        if not obs.close(p, want):
            self.viol("C10.project", {"C10"} | self.pp, i, rep, "project(%s) = %s vs sum of selected log-densities %.6f (score %.6f)" % (st["sel"], np.asarray(p), want, src.lp))
        if not perts:
            try:
                pa = tr.project(make_key(st["key"]), Selection.all())
                pn = tr.project(make_key(st["key"]), Selection.none())
                pc = tr.project(make_key(st["key"]), ~sel)
                if not obs.close(pa, src.lp) or not obs.close(pn, 0.0) or not obs.close(np.asarray(p) + np.asarray(pc), src.lp):
                    self.viol("C10.algebra", {"C10"}, i, rep, "project(all)=%s project(none)=%s project(S)+project(~S)=%s score=%.6f" % (np.asarray(pa), np.asarray(pn), np.asarray(p) + np.asarray(pc), src.lp))
            except Exception as e:
                self.viol("C10.project-crash", {"C10"}, i, rep, "project algebra raised %s" % type(e).__name__, "crash")
        return {"op": "project", "outcome": "ok", "p": np.asarray(p)}

    def subtrace_sites(self, src):
        """(static function whose call sites get_subtrace reaches from the root,
        batch length or None): static root, the executed branch of a root switch /
        or_else, or the kernel of a root vmap / repeat / scan, through wrappers."""
        core = unwrap(self.node)
        k = core["k"]
        if k == "static":
            return core, None
        if k == "mix":
            return static_root(self.node), None
        if k in ("switch", "or_else"):
            brs = core["branches"] if k == "switch" else [core["a"], core["b"]]
            rargs = self.ref_args(src.args)
            if self.node["k"] != k:
                return None, None  # index / flag computed by a wrapper's pre
            if k == "switch":
                j = min(max(int(rargs[0]), 0), len(brs) - 1)
            else:
                j = 0 if bool(rargs[0]) else 1
            b = unwrap(brs[j])
            return (b, None) if b["k"] == "static" else (None, None)
        if k in ("vmap", "repeat", "scan"):
            inner = unwrap(core["inner"])
            if inner["k"] == "static" and core["n"] > 0:
                return inner, core["n"]
        return None, None

    def step_subtrace(self, rep, i, st):
        src = rep.slots.get(st["src"])
        if src is None:
            return {"op": "subtrace", "outcome": "skipped:no-src"}
        sr, batch = self.subtrace_sites(src)
        if sr is None:
            return {"op": "subtrace", "outcome": "skipped:not-static"}
        n_ok = 0
        total = 0.0
        for s in sr["stmts"]:
            a = s["addr"]
            key = a[0] if len(a) == 1 else tuple(a)
            pre = tuple(a)
            idxs = [()] if batch is None else [(j,) for j in range(batch)]
            try:
                sub = src.tr.get_subtrace(key)
                sc = np.asarray(sub.get_score())
                chm = sub.get_choices()
                got = {}
                for ip in idxs:
                    full = ip + pre
                    sub_addrs = [x[len(full) :] for x in self.uni_addrs if x[: len(full)] == full]
                    got[ip] = obs.x_from_obs(obs.read_choices(chm, [ip + x for x in sub_addrs]))
            except Exception as e:
                self.viol("C34.subtrace-crash", {"C34"} | (self.pp & {"C13"}), i, rep, "get_subtrace(%r) raised %s: %s" % (key, type(e).__name__, str(e)[:200]), "crash")
                continue
            for ip in idxs:
                full = ip + pre
                want = {ip + x[len(full) :]: v for x, v in src.x.items() if x[: len(full)] == full}
                if not same_x(got[ip], want, bits=True):
                    self.viol("C34.subtrace-choices", {"C34"}, i, rep, "subtrace %r%s choices %s vs parent submap %s" % (key, list(ip), fmt_x(got[ip]), fmt_x(want)))
            # score: the call's contribution to the parent's score.  A stacked
            # subtrace either keeps one score per element (distribution traces) or
            # sums them (StaticTrace.get_score sums every leaf): both are "the
            # stacked call's contribution"; which one is decided by the shape.
            parts = [src.calls.get(ip + pre) for ip in idxs]
            if all(p is not None for p in parts):
                if batch is not None and sc.shape[:1] == (batch,):
                    for ip, p in zip(idxs, parts):
                        if not obs.close(sc[ip[0]].sum(), p):
                            self.viol("C34.subtrace-score", {"C34"}, i, rep, "subtrace %r%s score %s vs call contribution %.6f" % (key, list(ip), sc[ip[0]], p))
                elif not obs.close(sc.sum() if sc.shape else sc, sum(parts)):
                    self.viol("C34.subtrace-score", {"C34"}, i, rep, "subtrace %r score %s vs call contribution %.6f" % (key, sc, sum(parts)))
            n_ok += 1
            try:
                total += float(np.asarray(sc).sum())
            except Exception:
                total = None
        # every call site of the function was reached: the contributions add up to
        # the parent's (cached) score
        if total is not None and n_ok == len(sr["stmts"]) and n_ok > 0 and unwrap(self.node)["k"] in ("static", "mix", "vmap", "repeat", "scan"):
            self.probe("subtrace:sum-checked")
            ps = float(np.asarray(src.tr.get_score()))
            if np.isfinite(ps) and not obs.close(total, ps):
                self.viol("C34.subtrace-sum", {"C34"}, i, rep, "sub-trace scores add up to %.6f but the parent's score is %.6f" % (total, ps))
        self.probe("subtrace:checked", n_ok)
        if batch is not None:
            self.probe("subtrace:stacked", n_ok)
        return {"op": "subtrace", "outcome": "ok", "n": n_ok}

    def step_abort(self, rep, i, st, perts):
        src = rep.slots.get(st["src"])
        if src is None:
            return {"op": "abort", "outcome": "skipped:no-src"}
        kind = st["kind"]
        gf = src.tr.get_gen_fn()
        if kind == "missing":
            # assess with some visited addresses removed
            import random

            r = random.Random(st["key"])
            vis = sorted(src.vlp, key=str)
            if not vis:
                return {"op": "abort", "outcome": "skipped:no-choices"}
            drops = [[a for a in vis if r.random() < 0.4] or [vis[0]]]
            if self.script.get("missing_sites"):
                # ... and whole call sites of the root function (every element of a
                # vmapped / repeated distribution at one address): each site alone
                # (the rest supplied), then a random set of sites
                sr = static_root(self.node)
                sites = [tuple(s_["addr"]) for s_ in sr["stmts"]] if sr else []
                sites = [g_ for g_ in sites if any(a[: len(g_)] == g_ for a in vis)]
                for g_ in sites[:4]:
                    drops.append([a for a in vis if a[: len(g_)] == g_])
                extra = list(drops[0])
                for g_ in sites:
                    if r.random() < 0.3:
                        extra += [a for a in vis if a[: len(g_)] == g_ and a not in extra]
                drops.append(extra)
            leaves = {a: self.uni[a] for a in vis}
            self.fire("abort:missing")
            first = None
            for drop in drops:
                keep = [[list(a), src.x[a]] for a in vis if a not in drop]
                chm = build_chm(keep, leaves, "set")
                # reference: MissingAddress iff some visited static call site has an empty submap
                want_raise = self.ref_missing_expected(src, set(drop))
                self.probe("missing:%s" % {True: "must-raise", False: "must-not-raise", None: "undecided"}[want_raise])
                try:
                    gf.assess(chm, src.tr.get_args())
                    raised = None
                except Exception as e:
                    raised = e
                if want_raise is True and raised is None:
                    self.viol("C22.missing-not-raised", {"C22"}, i, rep, "assess without %s returned instead of raising MissingAddress" % (drop,))
                elif want_raise is True and type(raised).__name__ != "MissingAddress":
                    self.viol("C22.missing-wrong-exception", {"C22"}, i, rep, "assess without %s raised %s: %s" % (drop, type(raised).__name__, str(raised)[:200]), "crash")
                elif want_raise is False and raised is not None and type(raised).__name__ == "MissingAddress":
                    self.viol("C22.missing-spurious", {"C22"}, i, rep, "assess raised MissingAddress(%s) although every static call site has a non-empty submap" % (raised,))
                if first is None:
                    first = "raised:" + (type(raised).__name__ if raised else "none")
            return {"op": "abort", "outcome": first}
        if kind == "stray":
            ents = st["stray"]
            leaves = dict(self.cons)
            chm = build_chm([[a, v] for a, v, _ in ents], leaves, "set")
            self.fire("abort:stray")
            try:
                inv = chm.invalid_subset(gf, src.tr.get_args())
            except Exception as e:
                self.viol("C33.crash", {"C33"}, i, rep, "invalid_subset raised %s: %s" % (type(e).__name__, str(e)[:200]), "crash")
                return {"op": "abort", "outcome": "crash"}
            stat_uni = {static_part(a) for a in self.uni_addrs}
            bad = [tuple(a) for a, _, ok in ents if static_part(tuple(a)) not in stat_uni]
            if not bad:
                if inv is not None:
                    self.viol("C33.spurious", {"C33"}, i, rep, "every address is traceable but invalid_subset returned %s" % (inv,))
            else:
                if inv is None:
                    self.viol("C33.missed", {"C33"}, i, rep, "untraceable addresses %s but invalid_subset returned None" % (bad,))
                else:
                    got = set()
                    for a, _, _ in ents:
                        try:
                            if obs.read_choice(inv, tuple(a)) is not None:
                                got.add(tuple(a))
                        except Exception:
                            pass
                    if got != set(bad):
                        self.viol("C33.wrong-subset", {"C33"}, i, rep, "invalid_subset holds %s, expected exactly %s" % (sorted(got, key=str), sorted(bad, key=str)))
            return {"op": "abort", "outcome": "ok"}
        if kind in ("reuse", "reuse-hier"):
            return self.abort_reuse(rep, i, st, src)
        if kind == "unsupported":
            self.fire("abort:unsupported")
            try:
                gf.edit(make_key(st["key"]), src.tr, _BOGUS, Diff.no_change(src.tr.get_args()))
                return {"op": "abort", "outcome": "accepted"}
            except Exception as e:
                count(self.counts["rejected"], type(e).__name__)
                return {"op": "abort", "outcome": "raised:" + type(e).__name__}
        return {"op": "abort", "outcome": "skipped"}

    def abort_reuse(self, rep, i, st, src):
        """A copy of the program in which one static function traces an address
        twice must raise AddressReuse from simulate / propose / importance; the
        session then carries on with the traces it holds."""
        import copy
        import random

        r = random.Random(st["variant"])
        node = copy.deepcopy(self.node)
        statics = []

        def walk(n):
            if n["k"] == "static":
                statics.append(n)
            for c in ref.inner_nodes(n):
                walk(c)

        walk(node)
        if st["kind"] == "reuse":
            cands = [s for s in statics if len(s["stmts"]) >= 2]
            if not cands:
                return {"op": "abort", "outcome": "skipped:no-site"}
            s = r.choice(cands)
            a, b = r.sample(range(len(s["stmts"])), 2)
            s["stmts"][b]["addr"] = list(s["stmts"][a]["addr"])
            what = "address %s traced twice in one static function" % (s["stmts"][a]["addr"],)
        else:
            if not statics:
                return {"op": "abort", "outcome": "skipped:no-site"}
            s = r.choice(statics)
            inner = {"k": "static", "ptypes": [], "stmts": [{"callee": {"k": "dist", "d": "normal"}, "args": [["c", 0.0], ["c", 1.0]], "addr": ["hx"]}], "ret": ["v", 0], "out": ["F", "real"]}
            s["stmts"].append({"callee": inner, "args": [], "addr": ["hg"]})
            s["stmts"].append({"callee": {"k": "dist", "d": "normal"}, "args": [["c", 0.0], ["c", 1.0]], "addr": ["hg", "hx"]})
            what = "tuple address ('hg','hx') collides with address 'hx' traced inside the callee at 'hg'"
        self.fire("abort:" + st["kind"])
        try:
            gf = build.build(node)
            jargs = self.jargs(src.args, "py")
            key = make_key(st["key"])
            if st["api"] == "simulate":
                fn = lambda k: gf.simulate(k, jargs)  # noqa: E731
            elif st["api"] == "propose":
                fn = lambda k: gf.propose(k, jargs)  # noqa: E731
            else:
                fn = lambda k: gf.importance(k, ChoiceMap.empty(), jargs)  # noqa: E731
            if st["stage"] == "jit":
                jax.jit(fn)(key)
            else:
                fn(key)
            raised = None
        except Exception as e:
            raised = e
        name = type(raised).__name__ if raised is not None else "none"
        if raised is None:
            self.viol("C22.reuse-not-raised", {"C22"}, i, rep, "%s: %s (%s) returned instead of raising AddressReuse" % (what, st["api"], st["stage"]))
        elif name != "AddressReuse":
            self.viol("C22.reuse-wrong-exception", {"C22"}, i, rep, "%s: %s (%s) raised %s: %s" % (what, st["api"], st["stage"], name, str(raised)[:200]), "crash")
        else:
            count(self.counts["rejected"], name)
        return {"op": "abort", "outcome": "raised:" + name}

    def ref_missing_expected(self, src, dropped):
        """True if assess must raise MissingAddress, False if it must not,
        None if the property does not decide (loss hidden below a non-static
        callee, where the code keeps no record)."""
        sr = static_root(self.node)
        if sr is None:
            return None
        remaining = set(src.vlp) - dropped
        decided = False
        for s in sr["stmts"]:
            pre = tuple(s["addr"])
            vis_here = [a for a in src.vlp if a[: len(pre)] == pre]
            if not vis_here:
                continue  # site visits nothing (e.g. masked off): undecided
            if not any(a in remaining for a in vis_here):
                return True
            if any(a in dropped for a in vis_here):
                decided = None  # partial loss inside a callee: depends on callee kind
        if decided is None:
            return None
        return False

    # ---- whole session
    def run(self):
        for rep in self.reps:
            for i, st in enumerate(self.script["steps"]):
                self.counts["steps"] += 1
                try:
                    ev = self.exec_step(rep, i, st)
                except HarnessError:
                    raise
                except Exception as e:
                    if "sorting pytree dictionary keys" not in str(e):
                        raise
                    # a trace that JAX cannot flatten (mixed str / tuple addresses)
                    # reached harness code that flattens it
                    self.viol("C23.unflattenable", {"C23", "C22"}, i, rep, "%s: %s: %s" % (st.get("op"), type(e).__name__, str(e)[:200]), "crash")
                    ev = {"op": st.get("op"), "outcome": "crash"}
                ev["perts"] = rep.perts(i)
                rep.events.append(ev)
                if ev.get("outcome") == "ok":
                    self.counts["ok"] += 1
        self.agreement()
        return self

    def agreement(self):
        """Replica k vs the plain replica 0, step by step (DESIGN 2.5)."""
        base = [r for r in self.reps if r.id == 0]
        if not base:
            return
        base = base[0]
        if base.violations:
            # the plain replica is already wrong: divergence would be noise
            pass
        for rep in self.reps:
            if rep.id == 0:
                continue
            for i, (a, b) in enumerate(zip(base.events, rep.events)):
                perts = b.get("perts", [])
                if not perts and not any(rep.perts(j) for j in range(i)):
                    continue
                self.counts["agree_checks"] += 1
                props = {"C23"} if any(p.startswith(("stage", "boundary")) for p in perts) else set()
                for p in perts:
                    if p.startswith("enc:mask"):
                        props.add("C35")
                    if p == "tag:unknown":
                        props.add("C08")
                    if p.startswith("cache") or p == "key:replay" or p == "checkify:on":
                        props.add("C04")
                    if p == "enc:arr":
                        props |= {"C23"} | (self.pp & {"C13", "C14"})
                if not props:
                    props = {"C23"}
                oa, ob = a.get("outcome"), b.get("outcome")
                if oa != ob:
                    if (oa or "").startswith("skipped") or (ob or "").startswith("skipped"):
                        continue
                    if oa == "crash" or oa == "unobservable":
                        continue  # already reported on the plain replica
                    if _rejects(oa) and _rejects(ob):
                        continue  # both reject the erroneous call; which exception type is not a result
                    self.viol("C23.outcome-diverges", props, i, rep, "step %d (%s): plain replica outcome %s, perturbed replica %s under %s" % (i, a.get("op"), oa, ob, perts), "diverge")
                    continue
                if oa != "ok":
                    continue
                for fld in ("score", "w", "p", "assess"):
                    if fld in a and fld in b and not obs.close(a[fld], b[fld]):
                        self.viol("C23.%s-diverges" % fld, props, i, rep, "step %d (%s): %s %s (plain) vs %s under %s" % (i, a.get("op"), fld, a[fld], b[fld], perts), "diverge")
                if "x" in a and "x" in b and not same_x(a["x"], b["x"], bits=False):
                    self.viol("C23.choices-diverge", props, i, rep, "step %d (%s): choices %s (plain) vs %s under %s" % (i, a.get("op"), fmt_x(a["x"]), fmt_x(b["x"]), perts), "diverge")
                if "ret" in a and "ret" in b:
                    d = cmp_retvals(b["ret"], a["ret"])
                    if d:
                        self.viol("C23.retval-diverges", props, i, rep, "step %d (%s): retval differs under %s: %s" % (i, a.get("op"), perts, d[:2]), "diverge")
                if "bwd" in a and "bwd" in b and isinstance(a["bwd"], Update) and isinstance(b["bwd"], Update):
                    try:
                        xa = obs.x_from_obs(obs.read_choices(a["bwd"].constraint, self.uni_addrs))
                        xb = obs.x_from_obs(obs.read_choices(b["bwd"].constraint, self.uni_addrs))
                        if not same_x(xa, xb, bits=False):
                            self.viol("C23.bwd-diverges", props, i, rep, "step %d (%s): backward constraint %s (plain) vs %s under %s" % (i, a.get("op"), fmt_x(xa), fmt_x(xb), perts), "diverge")
                    except Exception:
                        pass


class _BogusRequest(genjax.EditRequest):
    def edit(self, key, tr, argdiffs):
        return tr.get_gen_fn().edit(key, tr, self, argdiffs)


_BOGUS = genjax.Pytree.dataclass(_BogusRequest)()


def _junk_value(leaf):
    d = leaf["d"]
    if d == "flip":
        return True
    if d in ("bernoulli", "categorical"):
        return 1
    if d == "normalv":
        return [0.123] * leaf["n"]
    if d == "flipv":
        return [True] * leaf["n"]
    if d == "poisson":
        return 2.0
    return 0.321


def same_value(got, v):
    if got is None:
        return False
    a = np.asarray(got)
    b = np.asarray(v)
    if a.shape != b.shape:
        return False
    if a.dtype == bool or b.dtype == bool:
        return bool(np.all(a.astype(bool) == b.astype(bool)))
    return bool(np.all(a.astype(np.float32) == b.astype(np.float32)))


def same_bits(a, b):
    """Unchanged value: bit-identical, or - when only the dtype differs (a switch
    whose branches share an address with different dtypes promotes the value when
    its index is an array) - numerically identical."""
    a, b = np.asarray(a), np.asarray(b)
    if a.shape != b.shape:
        return False
    if a.dtype == b.dtype:
        return a.tobytes() == b.tobytes()
    return bool(np.array_equal(a.astype(np.float64), b.astype(np.float64)))


def same_x(a, b, bits=False):
    if set(a) != set(b):
        return False
    for k in a:
        if bits:
            if not same_bits(a[k], b[k]):
                return False
        elif not obs.close(np.asarray(a[k], dtype=np.float64), np.asarray(b[k], dtype=np.float64), 1e-6):
            return False
    return True


def fmt_x(x):
    return "{" + ", ".join("%s: %s" % (k, np.asarray(v).tolist()) for k, v in sorted(x.items(), key=lambda kv: str(kv[0]))) + "}"


def cmp_retvals(a, b, exact=False):
    """Two real-side return values, masks normalised: compare flag, and value
    only where valid."""
    la = _norm_ret(a)
    lb = _norm_ret(b)
    if len(la) != len(lb):
        return ["structure %d vs %d" % (len(la), len(lb))]
    out = []
    for j, ((va, fa), (vb, fb)) in enumerate(zip(la, lb)):
        va, vb = np.asarray(va), np.asarray(vb)
        if va.shape != vb.shape:
            out.append("leaf %d shape %s vs %s" % (j, va.shape, vb.shape))
            continue
        if fa is not None or fb is not None:
            fa = np.ones((), bool) if fa is None else np.asarray(fa)
            fb = np.ones((), bool) if fb is None else np.asarray(fb)
            if fa.shape != fb.shape or not np.array_equal(fa, fb):
                out.append("leaf %d flag %s vs %s" % (j, fa, fb))
                continue
            m = np.broadcast_to(fa.reshape(fa.shape + (1,) * (va.ndim - fa.ndim)), va.shape)
            va, vb = va[m], vb[m]
        if exact:
            if va.tobytes() != vb.tobytes():
                out.append("leaf %d bits %s vs %s" % (j, va, vb))
        elif not obs.close(va.astype(np.float64), vb.astype(np.float64)):
            out.append("leaf %d %s vs %s" % (j, va, vb))
    return out


def _norm_ret(v, flag=None):
    if isinstance(v, Mask):
        f = np.asarray(v.primal_flag())
        if flag is not None:
            f = np.logical_and(f, flag)
        return [(f, None)] + _norm_ret(v.value, f)
    if isinstance(v, (tuple, list)):
        out = []
        for x in v:
            out += _norm_ret(x, flag)
        return out
    if isinstance(v, dict):
        out = []
        for k in sorted(v):
            out += _norm_ret(v[k], flag)
        return out
    if v is None:
        return []
    return [(np.asarray(v), flag)]


def trace_event(rec):
    ev = {
        "x": rec.x,
        "score": np.asarray(rec.tr.get_score()),
        "ret": rec.tr.get_retval(),
    }
    if getattr(rec, "assess_s", None) is not None:
        ev["assess"] = rec.assess_s  # assess of the trace's own choices, eager or jitted like the step
    return ev


def execute(script, only_replicas=None):
    s = Session(script, only_replicas)
    s.run()
    return s


def event_digest(sess):
    """Stable text digest of a session's observable history (determinism test)."""
    import hashlib

    h = hashlib.blake2b(digest_size=16)
    for rep in sess.reps:
        for ev in rep.events:
            h.update(("%d|%s|%s|" % (rep.id, ev.get("op"), ev.get("outcome"))).encode())
            for fld in ("score", "w", "p"):
                if fld in ev:
                    h.update(obs.bits(ev[fld]).encode())
            if "x" in ev:
                for k in sorted(ev["x"], key=str):
                    h.update(str(k).encode())
                    h.update(obs.bits(ev["x"][k]).encode())
    for v in sess.violations:
        h.update(("V|%s|%d|%d" % (v.oracle, v.step, v.replica)).encode())
    return h.hexdigest()
