"""Session scripts: the workload of Engine A, generated *before* execution as a
pure function of one integer (no JAX, no GenJAX, never looks at the SUT).

A script is JSON: programs, steps (create / edit / undo / read / abort) and, per
replica, the perturbation (fault) schedule.  See DESIGN.md 2.3-2.5.
"""

import copy

from sim import gen
from sim.ref import SCAN_LIKE, inner_nodes, sig, universe
from sim.seedhash import rng_for
from sim.texpr import expr_refs, sample_value, support_value

SCRIPT_VERSION = 1

# ------------------------------------------------------------ acceptance table
#
# Which edit requests a generative function accepts, taken from the code
# (DESIGN 2.3).  Requests outside the table are only ever issued as aborts.


def accepts_regenerate(node):
    k = node["k"]
    if k == "dist":
        return True
    if k == "static":
        return all(accepts_regenerate(s["callee"]) for s in node["stmts"])
    if k in ("scan", "accumulate", "reduce", "iterate", "iterate_final"):
        return accepts_regenerate(node["inner"])
    if k in ("dimap", "map", "contramap", "closure", "partial"):
        return accepts_regenerate(node["inner"])
    return False  # vmap, repeat, switch, or_else, mix, mask, masked_iterate*


def carry_index_editable(kernel):
    """Scan.edit_index needs the *next* step's return diff to be NoChange after
    the edited step's carry changed: true when the kernel's outputs read
    only values of distribution call sites (whose Update(empty) diff is NoChange)
    and literals, never the carry/scanned parameters."""
    if kernel["k"] != "static":
        return False
    refs = expr_refs(kernel["ret"])
    for r in refs:
        if r[0] != "v":
            return False
        if kernel["stmts"][r[1]]["callee"]["k"] != "dist":
            return False
    return True


def unwrap(node):
    """Strip transparent wrappers that hand edit requests to their inner."""
    while node["k"] in ("dimap", "map", "contramap", "closure", "partial"):
        node = node["inner"]
    return node


def accepts_index(node, sub):
    """IndexRequest(i, sub) with sub in update|regenerate, no argument change."""
    core = unwrap(node)
    k = core["k"]
    if k in ("vmap", "repeat"):
        inner = core["inner"]
        return True if sub in ("update", "static") else accepts_regenerate(inner)
    if k == "scan":
        kern = core["inner"]
        if not carry_index_editable(kern):
            return False
        return True if sub == "update" else accepts_regenerate(kern)
    return False


def has_kind(node, kinds):
    if node["k"] in kinds:
        return True
    return any(has_kind(c, kinds) for c in inner_nodes(node))


def supports_project(node):
    return not has_kind(node, ("mask", "masked_iterate", "masked_iterate_final"))


def static_root(node):
    """The static function reached from the root through transparent wrappers
    (whose traces forward get_inner_trace / StaticRequest), or None."""
    core = node
    while core["k"] in ("dimap", "map", "contramap", "closure", "partial"):
        core = core["inner"]
    if core["k"] == "mix":
        # genjax.mix IS a static function: categorical at "mixture_component",
        # then the switch over the components at "component_sample"
        return {
            "k": "static",
            "ptypes": [],
            "stmts": [
                {"addr": ["mixture_component"], "callee": {"k": "dist", "d": "categorical", "n": len(core["branches"])}, "args": []},
                {"addr": ["component_sample"], "callee": {"k": "switch", "branches": core["branches"], "out": core["out"]}, "args": []},
            ],
            "ret": ["v", 1],
            "out": core["out"],
        }
    return core if core["k"] == "static" else None


# ------------------------------------------------------------------ selections


def static_part(addr):
    return tuple(c for c in addr if isinstance(c, str))


def sel_member(term, a):
    """Reference predicate: does selection `term` select static address a?"""
    op = term[0]
    if op == "all":
        return True
    if op == "none":
        return False
    if op == "leaf":
        return a == ()
    if op in ("at", "atleaf"):
        comps = term[1]
        if len(a) < len(comps):
            return False
        for c, x in zip(comps, a):
            if c != "..." and c != x:
                return False
        return len(a) == len(comps) if op == "atleaf" else True
    if op == "or":
        return sel_member(term[1], a) or sel_member(term[2], a)
    if op == "and":
        return sel_member(term[1], a) and sel_member(term[2], a)
    if op == "not":
        return not sel_member(term[1], a)
    raise ValueError(op)


SEL_BIAS = {"term": 0.45, "or": 0.2, "and": 0.15, "not": 0.2}


def gen_selection(rng, static_addrs, depth=2, bias=None):
    bias = bias or SEL_BIAS
    r = rng.random()
    if not static_addrs:
        return [rng.choice(["all", "none"])]
    if depth <= 0 or r < bias["term"]:
        r2 = rng.random()
        if r2 < 0.12:
            return ["all"]
        if r2 < 0.2:
            return ["none"]
        a = list(rng.choice(static_addrs))
        if not a:
            return ["leaf"] if r2 < 0.6 else ["all"]
        if r2 < 0.4 and len(a) > 1:
            a = a[: rng.randint(1, len(a))]  # prefix: selects everything below
        if rng.random() < 0.2:
            a[rng.randrange(len(a))] = "..."
        return ["atleaf" if rng.random() < 0.25 else "at", a]
    r = (r - bias["term"]) / max(1e-9, 1.0 - bias["term"])
    tot = bias["or"] + bias["and"] + bias["not"]
    if r < bias["or"] / tot:
        return ["or", gen_selection(rng, static_addrs, depth - 1, bias), gen_selection(rng, static_addrs, depth - 1, bias)]
    if r < (bias["or"] + bias["and"]) / tot:
        return ["and", gen_selection(rng, static_addrs, depth - 1, bias), gen_selection(rng, static_addrs, depth - 1, bias)]
    return ["not", gen_selection(rng, static_addrs, depth - 1, bias)]


# ----------------------------------------------------------------- constraints


def constrainable(node):
    """address -> leaf for addresses whose leaf kind is unambiguous."""
    m = {}
    bad = set()
    for a, leaf in universe(node):
        key = (leaf["d"], leaf.get("n"))
        if a in m and (m[a]["d"], m[a].get("n")) != key:
            bad.add(a)
        m.setdefault(a, leaf)
    return {a: l for a, l in m.items() if a not in bad}


def gen_constraint(rng, node, mode):
    """entries [[addr(list), value], ...]; mode empty|full|partial|single"""
    cm = constrainable(node)
    addrs = sorted(cm, key=lambda a: [str(c) for c in a])
    if mode == "empty" or not addrs:
        chosen = []
    elif mode == "full":
        chosen = addrs
    elif mode == "single":
        chosen = [rng.choice(addrs)]
    else:
        p = rng.choice([0.25, 0.5, 0.75])
        chosen = [a for a in addrs if rng.random() < p]
        if not chosen:
            chosen = [rng.choice(addrs)]
    # prefix-free: an address that is a proper prefix of another chosen address
    # (a bare-distribution branch next to a structured branch) cannot share a map
    chosen = [a for a in chosen if not any(b != a and b[: len(a)] == a for b in chosen)]
    # ... also on static parts: under a vector combinator the entries at different
    # indices are merged per index level, where a bare-distribution branch (static
    # part ()) and a structured branch clash the same way
    sp = {a: static_part(a) for a in chosen}
    chosen = [a for a in chosen if not any(sp[b] != sp[a] and sp[b][: len(sp[a])] == sp[a] for b in chosen)]
    return [[list(a), support_value(rng, cm[a])] for a in chosen]


BUILD_STYLES = ["set", "set", "dict", "merge_rev", "extend", "arrayidx", "slice", "vmapped", "nested", "nested"]


# -------------------------------------------------------------------- profiles


def base_profile():
    return {
        "gen": gen.default_profile(),
        "allowed_features": [],
        "n_steps": (3, 5),
        "ops": {
            "simulate": 3,
            "importance": 3,
            "update": 5,
            "regenerate": 3,
            "index_edit": 2,
            "static_edit": 1,
            "empty_edit": 1,
            "undo": 3,
            "project": 2,
            "subtrace": 1,
            "abort": 1,
        },
        "replicas": 2,
        "pert_rate": 0.6,
        "perts": {
            "stage:jit": 4,
            "stage:vmap": 2,
            "boundary:flatten": 1,
            "boundary:jit-id": 3,
            "cache:cold": 1,
            "cache:decoy": 1,
            "enc:arr": 3,
            "enc:mask-true": 1,
            "enc:mask-true-traced": 2,
            "enc:mask-false": 2,
            "tag:unknown": 2,
            "key:replay": 1,
            "checkify:on": 1,
        },
        "argchange": 0.4,
        "oob_index": 0.0,
        "decoy": 0.3,
    }


def profile_for(pid, tier):
    P = base_profile()
    G = P["gen"]
    if tier == "thorough":
        P["n_steps"] = (4, 10)
        P["replicas"] = 3
        G["max_cost"] = 40.0
    if pid == "C12":
        G["root_kinds"] = {"scan": 5, "accumulate": 1, "reduce": 1, "iterate": 1, "iterate_final": 1, "static": 1, "dimap": 1}
        P["ops"].update({"index_edit": 9, "regenerate": 4, "update": 4, "undo": 3})
        G["scan_editable"] = 0.85
        G["lens"] = [2, 3, 3, 4, 1]
    elif pid == "C11":
        G["root_kinds"] = {"vmap": 5, "repeat": 3, "static": 1, "dimap": 1}
        P["ops"].update({"index_edit": 4, "importance": 5})
        G["lens"] = [0, 1, 2, 2, 3, 3]
        G["axis1"] = 0.6
        G["vec_param"] = 0.3
        P["rejuv"] = 0.6
        P["index_static"] = 0.4
        G["vec_static_inner"] = 0.6
    elif pid == "C13":
        G["root_kinds"] = {"switch": 5, "or_else": 3, "mix": 2, "static": 2, "vmap": 1}
        P["oob_index"] = 0.25
        P["argchange"] = 0.7
        P["undo_after"] = {"update": 0.5, "static_edit": 0.5, "empty_edit": 0.3}
        P["ops"].update({"update": 7, "static_edit": 2, "empty_edit": 2})
        P["keep_index"] = 0.6
        G["choice_switch"] = 0.3
        P["dep_switch_bias"] = 0.6
    elif pid == "C14":
        G["root_kinds"] = {"mask": 5, "vmap": 2, "static": 2}
        G["kinds"]["mask"] = 6
        P["argchange"] = 0.8
        P["flag_flip"] = 0.7
        P["pert_rate"] = 0.9
        P["perts"].update({"enc:arr": 8, "stage:jit": 6, "boundary:jit-id": 4})
        P["ops"].update({"importance": 5, "update": 8})
    elif pid == "C15":
        G["root_kinds"] = {"dimap": 8, "map": 2, "contramap": 2, "static": 1}
        G["post_xformed"] = 0.9
        G["post_discarded"] = 0.5
        P["single_arg_change"] = 0.5
        P["argchange"] = 0.8
        P["ops"].update({"update": 8, "empty_edit": 3})
    elif pid == "C16":
        G["root_kinds"] = {"masked_iterate": 3, "masked_iterate_final": 3, "vmap": 1}
        G["kinds"]["masked_iterate"] = 3
        G["kinds"]["masked_iterate_final"] = 3
    elif pid == "C32":
        G["root_kinds"] = {"closure": 4, "partial": 3, "static": 1}
        G["static_kw"] = 0.5
        P["perts"].update({"cache:decoy": 6})
    elif pid == "C22":
        G["root_kinds"] = {"static": 6, "vmap": 1, "scan": 1, "closure": 1}
        G["addr_styles"] = {"str": 3, "tuple": 3, "mixed": 1, "deep": 3}
        P["allowed_features"] = ["mixed_addr"]
        P["ops"].update({"abort": 14})
        P["n_steps"] = (6, 9) if tier == "quick" else (8, 14)
        G["vec_leaf_inner"] = 0.6
        G["kinds"] = {"static": 4, "vmap": 6, "repeat": 4, "switch": 2, "or_else": 1, "mask": 2, "scan": 1, "dimap": 1, "map": 1}
        G["nest"] = 0.7
        G["min_depth"] = 2
    elif pid == "C06":
        P["ops"].update({"undo": 8, "update": 6, "regenerate": 4, "index_edit": 5, "static_edit": 2})
        G["scan_editable"] = 0.6
        G["kinds"].update({"scan": 5, "vmap": 4, "mask": 3, "switch": 5, "or_else": 2, "mix": 2})
        P["argchange"] = 0.55
        P["undo_after"] = {"static_edit": 0.6, "index_edit": 0.5, "update": 0.5, "regenerate": 0.3}
        G["root_kinds"] = dict(G["kinds"], switch=9, or_else=4, mix=4)
        P["keep_index"] = 0.3
        G["choice_switch"] = 0.2
        P["dep_switch_bias"] = 0.6
    elif pid == "C07":
        P["ops"].update({"regenerate": 9, "undo": 2})
        P["sel_bias"] = {"term": 0.25, "or": 0.2, "and": 0.25, "not": 0.3}
        P["sel_depth"] = 3
        P["require_regenerate"] = 0.9
        G["nest"] = 0.6
        G["addr_styles"] = {"str": 4, "tuple": 4, "mixed": 0}
        G["kinds"].update({"vmap": 1, "repeat": 1, "switch": 1, "mask": 1})
    elif pid == "C03":
        P["ops"].update({"importance": 10, "update": 1})
        P["oob_index"] = 0.1
        G["kinds"].update({"vmap": 5, "scan": 4, "switch": 4, "mask": 3})
    elif pid == "C05":
        P["ops"].update({"update": 10})
        P["argchange"] = 0.6
        G["kinds"].update({"mask": 4, "switch": 4})
        P["keep_index"] = 0.5
    elif pid == "C10":
        P["ops"].update({"project": 8})
        P["oob_index"] = 0.25
        G["kinds"].update({"switch": 6, "or_else": 2})
        G["root_kinds"] = dict(G["kinds"], switch=10, static=8)
        P["sel_bias"] = {"term": 0.25, "or": 0.2, "and": 0.25, "not": 0.3}
        P["sel_depth"] = 3
    elif pid == "C34":
        P["ops"].update({"subtrace": 8})
        G["root_kinds"] = {"static": 5, "dimap": 1, "closure": 1, "vmap": 2, "scan": 2, "switch": 3, "or_else": 1}
        G["nest"] = 0.7
        P["oob_index"] = 0.2
        P["ops"].update({"index_edit": 10, "static_edit": 5})
        P["n_steps"] = (5, 8) if tier == "quick" else (6, 12)
        P["rejuv"] = 0.8
        P["index_static"] = 0.8
        G["root_kinds"].update({"vmap": 6, "repeat": 3, "scan": 4})
        G["vec_static_inner"] = 0.8
        G["kernel_normal"] = 0.8
        G["scan_editable"] = 0.8
        G["lens"] = [2, 3, 3, 2]
    elif pid == "C33":
        P["ops"].update({"abort": 8})
        G["kinds"].update({"switch": 6, "or_else": 2, "vmap": 5})
        G["root_kinds"] = {"switch": 6, "static": 6, "or_else": 2, "mix": 1, "vmap": 2, "scan": 1, "dimap": 1}
        G["nest"] = 0.6
        G["shared_names"] = 0.9
        G["addr_styles"] = {"str": 3, "tuple": 6, "mixed": 0}
        P["ops"].update({"abort": 24})
        P["n_steps"] = (7, 11) if tier == "quick" else (10, 16)
    elif pid == "C35":
        P["ops"].update({"importance": 6, "update": 6})
        P["perts"].update({"enc:mask-true": 5, "enc:mask-true-traced": 6, "enc:mask-false": 6})
        P["mask_jit"] = 0.5
        G["choice_switch"] = 0.35
        G["root_kinds"] = dict(G["kinds"], static=10)
        P["pert_rate"] = 0.9
        P["argchange"] = 0.7
        G["kinds"].update({"vmap": 5, "scan": 4})
    elif pid == "C08":
        P["perts"].update({"tag:unknown": 10})
        P["ops"].update({"update": 8, "regenerate": 4, "empty_edit": 3})
        P["argchange"] = 0.6
        G["kinds"].update({"switch": 0.5, "or_else": 0.2})
    elif pid == "C23":
        P["perts"].update({"stage:jit": 8, "stage:vmap": 5, "boundary:jit-id": 4, "stage:vmap-args": 6})
        P["pert_rate"] = 0.9
        P["oob_index"] = 0.1
        P["ops"].update({"simulate": 4, "importance": 5, "project": 5})
        G["root_kinds"] = dict(G["kinds"], switch=10, or_else=3, mix=2, mask=4)
        G["kinds"].update({"switch": 5, "mask": 3})
    elif pid == "C38":
        P["ops"].update({"empty_edit": 4, "static_edit": 8, "simulate": 4, "importance": 3, "undo": 6})
        G["root_kinds"] = {"static": 6, "dimap": 1, "partial": 1, "closure": 1, "vmap": 1, "scan": 1, "mix": 2}
        G["max_stmts"] = 4
        G["choice_switch"] = 0.25
        G["chain"] = 0.6
        G["chain3"] = 0.5
        P["single_sub"] = 0.5
        G["nest"] = 0.6
        G["empty_static"] = 0.15
        P["rejuv"] = 0.25
        P["index_static"] = 0.4
        P["dep_switch_bias"] = 0.6
        P["undo_after"] = {"static_edit": 0.7, "empty_edit": 0.3}
    elif pid == "C04":
        P["ops"] = {"simulate": 10, "importance": 1, "update": 1}
        P["perts"].update({"key:replay": 6, "cache:cold": 3, "stage:jit": 4, "stage:vmap": 4})
    if P.get("rejuv", 0.0) > 0:
        G["leaves"] = list(G["leaves"]) + ["normal"] * 6  # call sites a normal proposal can rejuvenate
    return P


# ------------------------------------------------------------------ generation


def _static_addrs(node):
    out = []
    seen = set()
    for a, _ in universe(node):
        s = static_part(a)
        if s not in seen:
            seen.add(s)
            out.append(s)
    return out


def _gen_static_subs(rng, P, node, sr):
    """Sub-requests of a StaticRequest on static function sr; (subs, all accepted)."""
    subs = []
    ok = True
    for s in sr["stmts"]:
        rj = P.get("rejuv", 0.0)
        if rng.random() < max(0.6, rj):
            if rj > 0 and s["callee"]["k"] == "dist" and s["callee"]["d"] == "normal" and rng.random() < rj:
                subs.append({"addr": s["addr"], "kind": "rejuv", "a": round(rng.uniform(0.3, 1.0), 2), "b": round(rng.uniform(-0.5, 0.5), 2), "s": round(rng.uniform(0.3, 1.2), 2)})
                continue
            kind = rng.choice(["update", "regenerate", "empty"])
            ent = {"addr": s["addr"], "kind": kind}
            if kind == "update":
                ent["constraint"] = gen_constraint(rng, s["callee"], rng.choice(["partial", "single", "full", "full", "empty"]))
            elif kind == "regenerate":
                ent["sel"] = gen_selection(rng, _static_addrs(s["callee"]))
                if not accepts_regenerate(s["callee"]):
                    ok = False
            subs.append(ent)
    return subs, ok


def _fed_switches(node, sr):
    """{statement index of a switch-like call: index of the earlier statement
    whose (random) value selects its branch} in static function sr."""
    from sim.texpr import expr_refs

    if unwrap(node)["k"] == "mix":
        return {1: 0}
    out = {}
    for j, s in enumerate(sr["stmts"]):
        if unwrap(s["callee"])["k"] in ("switch", "or_else") and s["args"]:
            for r in expr_refs(s["args"][0]):
                if r[0] == "v" and r[1] < j and sr["stmts"][r[1]]["callee"]["k"] == "dist":
                    out[j] = r[1]
    return out


def _vec_len(node):
    core = unwrap(node)
    if core["k"] in ("vmap", "repeat", "scan"):
        return core["n"]
    return None


def gen_session(session_seed, pid, tier, profile=None):
    """The script for one session: pure function of (seed, pid, tier, this file)."""
    P = profile or profile_for(pid, tier)
    rng = rng_for(session_seed, "session")
    # swarm: switch a random subset of op kinds and perturbation kinds off
    ops = dict(P["ops"])
    for k in sorted(ops):
        if k not in ("simulate",) and rng.random() < 0.25:
            ops[k] = 0
    perts = dict(P["perts"])
    for k in sorted(perts):
        if rng.random() < 0.3:
            perts[k] = 0
    node = gen.gen_program_filtered(rng, P["gen"], P["allowed_features"])
    if P.get("require_regenerate", 0.0) > 0:
        # most sessions of this profile must be able to run Regenerate at all
        for _ in range(60):
            if accepts_regenerate(node) or rng.random() > P["require_regenerate"]:
                break
            node = gen.gen_program_filtered(rng, P["gen"], P["allowed_features"])
    programs = [node]
    if rng.random() < P["decoy"]:
        dg = gen.default_profile()
        dg["max_depth"] = 2
        programs.append(gen.gen_program_filtered(rng, dg, ()))
    steps = []
    slots = []  # (name, prog index, args, how) for live traces
    n_steps = rng.randint(*P["n_steps"])
    uni_static = _static_addrs(node)
    nk = [0]

    def key():
        nk[0] += 1
        return rng.randrange(1 << 30)

    def new_slot():
        return "t%d" % len([s for s in steps if "out" in s])

    def create():
        oob = rng.random() < P["oob_index"]
        args = gen.sample_args(rng, node, oob=oob)
        r = rng.random()
        tot = ops["simulate"] + ops["importance"]
        if tot == 0 or r < ops["simulate"] / max(tot, 1e-9):
            st = {"op": "simulate", "prog": 0, "args": args, "key": key(), "out": new_slot()}
        else:
            mode = rng.choice(["empty", "full", "partial", "partial", "partial", "single"])
            st = {
                "op": "importance",
                "prog": 0,
                "args": args,
                "key": key(),
                "constraint": gen_constraint(rng, node, mode),
                "build": rng.choice(BUILD_STYLES),
                "out": new_slot(),
            }
        steps.append(st)
        slots.append({"name": st["out"], "args": args, "edit": None})

    create()
    while len(steps) < n_steps:
        live = slots
        choices = {k: w for k, w in ops.items() if w > 0 and k not in ("simulate", "importance")}
        choices["create"] = (ops["simulate"] + ops["importance"]) * (0.5 if len(live) < 3 else 0.0)
        if not any(w > 0 for w in choices.values()):
            choices["create"] = 1
        op = gen.wchoice(rng, choices)
        if op == "create":
            create()
            continue
        src = rng.choice(live)
        if op in ("update", "regenerate", "empty_edit", "static_edit", "index_edit"):
            new_args = None
            if op != "index_edit" and rng.random() < P["argchange"]:
                oob = rng.random() < P["oob_index"]
                ins, _ = sig(node)
                new_args = list(src["args"])
                changed = False
                for i, t in enumerate(ins):
                    if t == ["B"] and rng.random() < P.get("flag_flip", 0.0):
                        new_args[i] = not new_args[i]  # flag transitions T->F / F->T
                        changed = True
                    elif rng.random() < 0.5 and t != ["N"]:
                        new_args[i] = sample_value(rng, t, oob=oob and t[0] == "I")
                        changed = True
                sa = P.get("single_arg_change", 0.0)
                if sa > 0 and rng.random() < sa:
                    cand = [i for i, t in enumerate(ins) if t != ["N"]]
                    if cand:
                        i = rng.choice(cand)
                        new_args = list(src["args"])
                        new_args[i] = sample_value(rng, ins[i])
                        changed = new_args != list(src["args"])
                ki = P.get("keep_index", 0.0)
                if ki > 0 and unwrap(node)["k"] in ("switch", "or_else") and node["k"] in ("switch", "or_else") and rng.random() < ki:
                    # same branch, other arguments: nothing may be resampled
                    new_args[0] = src["args"][0]
                    rest = [i for i, t in enumerate(ins) if i > 0 and t != ["N"]]
                    if rest and new_args[1:] == list(src["args"][1:]):
                        i = rng.choice(rest)
                        new_args[i] = sample_value(rng, ins[i])
                    changed = new_args != list(src["args"])
                if not changed:
                    new_args = None
            st = {"op": op, "src": src["name"], "args": new_args, "key": key(), "out": new_slot()}
            st["api"] = rng.choice(["tr.update", "gf.update", "req.edit", "tr.edit", "gf.edit"])
            if rng.random() < 0.15:
                st["annotate"] = True  # wrap request in DiffAnnotate(identity)
            expect = "ok"
            if op == "update":
                mode = rng.choice(["empty", "full", "partial", "partial", "single", "single"])
                st["constraint"] = gen_constraint(rng, node, mode)
                st["build"] = rng.choice(BUILD_STYLES)
            elif op == "regenerate":
                st["sel"] = gen_selection(rng, uni_static, P.get("sel_depth", 2), P.get("sel_bias"))
                if not accepts_regenerate(node):
                    expect = "reject"
            elif op == "index_edit":
                n = _vec_len(node)
                sub = rng.choice(["update", "update", "regenerate"])
                ixs = P.get("index_static", 0.0)
                if ixs > 0 and rng.random() < ixs and unwrap(node)["k"] in ("vmap", "repeat") and static_root(unwrap(node)["inner"]) is not None and unwrap(unwrap(node)["inner"])["k"] == "static":
                    sub = "static"  # IndexRequest(i, StaticRequest({...})) on the kernel
                st["sub"] = sub
                if n is None or n == 0:
                    st["idx"] = 0
                    expect = "reject"
                else:
                    st["idx"] = rng.choice([0, n - 1, rng.randrange(n)])
                    if not accepts_index(node, sub):
                        expect = "reject"
                core = unwrap(node)
                inner = core.get("inner", node)
                if sub == "update":
                    st["constraint"] = gen_constraint(rng, inner, rng.choice(["partial", "single", "full", "empty"]))
                    st["build"] = "set"
                elif sub == "static":
                    st["subs"], ok = _gen_static_subs(rng, P, inner, static_root(inner))
                    if not ok:
                        expect = "reject"
                else:
                    st["sel"] = gen_selection(rng, _static_addrs(inner))
                st["idx_enc"] = rng.choice(["int", "arr"])
            elif op == "static_edit":
                sr = static_root(node)
                if sr is None:
                    expect = "reject"
                    st["subs"] = []
                else:
                    subs = []
                    fed = {}
                    db = P.get("dep_switch_bias", 0.0)
                    if db > 0:
                        fed = _fed_switches(node, sr)
                        if not (fed and rng.random() < db):
                            fed = {}
                    only = None
                    ss = P.get("single_sub", 0.0)
                    if ss > 0 and not fed and sr["stmts"] and rng.random() < ss:
                        # one addressed call site (early ones preferred): everything
                        # downstream is an implicit EmptyRequest with changed arguments
                        only = min(rng.randrange(len(sr["stmts"])), rng.randrange(len(sr["stmts"])))
                    for j, s in enumerate(sr["stmts"]):
                        if only is not None:
                            if j != only:
                                continue
                            if s["callee"]["k"] == "dist" or not accepts_regenerate(s["callee"]) or rng.random() < 0.7:
                                subs.append({"addr": s["addr"], "kind": "update", "constraint": gen_constraint(rng, s["callee"], "full")})
                            else:
                                subs.append({"addr": s["addr"], "kind": "regenerate", "sel": ["all"]})
                            continue
                        if j in fed:
                            continue  # the switch itself stays unaddressed (implicit EmptyRequest)
                        if j in fed.values():
                            # the choice that selects the branch is constrained: the
                            # unaddressed switch sees its index change
                            subs.append({"addr": s["addr"], "kind": "update", "constraint": gen_constraint(rng, s["callee"], "full")})
                            continue
                        if rng.random() < 0.6:
                            kind = rng.choice(["update", "regenerate", "empty"])
                            rj = P.get("rejuv", 0.0)
                            if rj > 0 and s["callee"]["k"] == "dist" and s["callee"]["d"] == "normal" and rng.random() < rj:
                                subs.append({"addr": s["addr"], "kind": "rejuv", "a": round(rng.uniform(0.3, 1.0), 2), "b": round(rng.uniform(-0.5, 0.5), 2), "s": round(rng.uniform(0.3, 1.2), 2)})
                                continue
                            ent = {"addr": s["addr"], "kind": kind}
                            if kind == "update":
                                ent["constraint"] = gen_constraint(rng, s["callee"], rng.choice(["partial", "single", "full", "full", "empty"]))
                            elif kind == "regenerate":
                                ent["sel"] = gen_selection(rng, _static_addrs(s["callee"]))
                                if not accepts_regenerate(s["callee"]):
                                    expect = "reject"
                            subs.append(ent)
                    st["subs"] = subs
            st["expect"] = expect
            steps.append(st)
            if expect == "ok":
                slots.append({"name": st["out"], "args": new_args if new_args is not None else src["args"], "edit": len(steps) - 1, "src": src})
                if rng.random() < P.get("undo_after", {}).get(op, 0.0):
                    # edit immediately followed by its undo (C06 round trip)
                    tgt = slots[-1]
                    ust = {"op": "undo", "of": tgt["name"], "key": key(), "out": new_slot()}
                    steps.append(ust)
                    slots.append({"name": ust["out"], "args": src["args"], "edit": len(steps) - 1, "src": tgt})
        elif op == "undo":
            edited = [s for s in live if s.get("edit") is not None]
            if not edited:
                continue
            tgt = edited[-1] if rng.random() < 0.6 else rng.choice(edited)
            st = {"op": "undo", "of": tgt["name"], "key": key(), "out": new_slot()}
            steps.append(st)
            # the restored trace is an edit result too (undo of undo)
            slots.append({"name": st["out"], "args": tgt["src"]["args"], "edit": len(steps) - 1, "src": tgt})
        elif op == "project":
            st = {"op": "project", "src": src["name"], "sel": gen_selection(rng, uni_static, P.get("sel_depth", 2), P.get("sel_bias")), "key": key()}
            st["expect"] = "ok" if supports_project(node) else "reject"
            st["api"] = rng.choice(["tr", "gf"])
            steps.append(st)
        elif op == "subtrace":
            steps.append({"op": "subtrace", "src": src["name"]})
        elif op == "abort":
            kinds_ab = ["missing", "stray", "unsupported"]
            if pid == "C22":
                kinds_ab += ["reuse", "reuse", "reuse-hier", "missing", "missing"]
            if pid == "C33":
                kinds_ab += ["stray"] * 4
            kind = rng.choice(kinds_ab)
            st = {"op": "abort", "kind": kind, "src": src["name"], "key": key()}
            if kind in ("reuse", "reuse-hier"):
                st["variant"] = rng.randrange(1 << 16)
                st["api"] = rng.choice(["simulate", "importance", "propose"])
                st["stage"] = rng.choice(["eager", "eager", "jit"])
            if kind == "missing":
                st["drop"] = rng.random()
            elif kind == "stray":
                st["stray"] = gen_stray(rng, node, index_first=(pid == "C33"))
            steps.append(st)
    # replicas and their perturbation schedules
    replicas = [{"id": 0, "perts": [[] for _ in steps]}]
    kinds_on = {k: w for k, w in perts.items() if w > 0}
    for r in range(1, P["replicas"]):
        sched = [[] for _ in steps]
        if kinds_on:
            for i, st in enumerate(steps):
                if rng.random() < P["pert_rate"]:
                    k1 = gen.wchoice(rng, kinds_on)
                    mj = P.get("mask_jit", 0.0)
                    if mj > 0:
                        # C35 profile: Mask encodings only matter where a constraint is passed
                        has_c = st.get("constraint") is not None and st["op"] in ("importance", "update")
                        mk = {k: w for k, w in kinds_on.items() if k.startswith("enc:mask")}
                        ok_ = {k: w for k, w in kinds_on.items() if not k.startswith("enc:mask")}
                        if has_c and mk and rng.random() < 0.8:
                            k1 = gen.wchoice(rng, mk)
                        elif not has_c and k1.startswith("enc:mask") and ok_:
                            k1 = gen.wchoice(rng, ok_)
                    ps = [k1]
                    if mj > 0 and k1.startswith("enc:mask") and rng.random() < mj:
                        ps.append("stage:jit")  # the constraint is a jit argument: its flags are tracers
                    elif rng.random() < 0.3:
                        k2 = gen.wchoice(rng, kinds_on)
                        if k2.split(":")[0] != k1.split(":")[0]:
                            ps.append(k2)
                    sched[i] = ps
        replicas.append({"id": r, "perts": sched, "slot": rng.randrange(3), "batch": rng.choice([1, 3])})
    return {
        "v": SCRIPT_VERSION,
        "pid": pid,
        "tier": tier,
        "seed": session_seed,
        "enc_sticky": True,
        "missing_sites": True,
        "or_shadow": True,
        "programs": programs,
        "steps": steps,
        "replicas": replicas,
    }


def gen_stray(rng, node, index_first=False):
    """A constraint mixing valid addresses with addresses outside the universe."""
    cm = constrainable(node)
    addrs = sorted(cm, key=lambda a: [str(c) for c in a])
    if not index_first:
        addrs = [a for a in addrs if a and isinstance(a[0], str)]
    else:
        addrs = [a for a in addrs if a]
    ents = []
    for a in addrs:
        if rng.random() < 0.4:
            ents.append([list(a), support_value(rng, cm[a]), True])
    keep = [e for e in ents if not any(tuple(o[0]) != tuple(e[0]) and tuple(o[0])[: len(e[0])] == tuple(e[0]) for o in ents)]
    ents = keep
    n_bad = rng.choice([0, 1, 1, 2])
    used = {static_part(a) for a in addrs}
    for j in range(n_bad):
        r = rng.random()
        if r < 0.5 or not addrs:
            bad = ["zz%d" % j]
        elif r < 0.8:
            base = [c for c in rng.choice(addrs) if isinstance(c, str)]
            bad = base + ["zz%d" % j]
        else:
            bad = ["zz%d" % j, "q"]
        if tuple(bad) in used:
            continue
        ents.append([bad, 0.5, False])
    # prefix-free: a valid leaf address may not be a proper prefix of another entry
    ents = [
        e
        for e in ents
        if not any(tuple(o[0]) != tuple(e[0]) and tuple(o[0])[: len(e[0])] == tuple(e[0]) for o in ents)
    ]
    return ents


def script_signature(script):
    """(program shape, op-kind sequence, perturbation-kind multiset) - the unit
    of `distinct_nontrivial` in evidence."""
    from sim.ref import kinds as _kinds

    shape = tuple(_kinds(script["programs"][0]))
    opseq = tuple(s["op"] for s in script["steps"])
    pk = []
    for r in script["replicas"]:
        for ps in r["perts"]:
            pk += ps
    return (shape, opseq, tuple(sorted(pk)))
