"""C04 supplements (DESIGN 3, C04 b/c):

 (b) key discipline monitor: simulate / propose under JAX's key-reuse checker,
     eagerly and under jit - a deterministic exactly-once check on the PRNG seam;
 (c) conformance to the program's distribution - a *statistical* supplement:
     finite discrete programs: N keys (one jit(vmap(simulate))) against the exact
     probability table of the reference interpreter (G-test, p < 1e-9);
     continuous programs: probability-integral transform of every continuous site
     through the reference's conditional CDF (KS test per site, chi-square on a
     4x4 grid per pair of sites, p < 1e-9).
 Keys are fixed by the seed, so outcomes are reproducible.
"""

import json
import math
import warnings

from sim import gen
from sim.seedhash import H, rng_for

P_THRESHOLD = 1e-9


def _keystruct_program(rng):
    """Programs that stress how keys are derived per iteration / element and per
    call site: a vector combinator around a kernel whose call sites are a nested
    function with several discrete choices next to plain discrete choices."""

    def leaf(addr):
        d = rng.choice(["flip", "flip", "bernoulli", "categorical"])
        if d == "flip":
            return {"callee": {"k": "dist", "d": "flip"}, "args": [["c", round(rng.uniform(0.3, 0.7), 2)]], "addr": [addr]}
        if d == "bernoulli":
            return {"callee": {"k": "dist", "d": "bernoulli"}, "args": [], "kw": {"logits": ["c", round(rng.uniform(-0.8, 0.8), 2)]}, "addr": [addr]}
        return {"callee": {"k": "dist", "d": "categorical", "n": 2}, "args": [], "kw": {"logits": ["ca", [round(rng.uniform(-0.6, 0.6), 2), 0.0]]}, "addr": [addr]}

    inner = {"k": "static", "ptypes": [], "stmts": [leaf("a%d" % i) for i in range(rng.choice([2, 2, 3]))], "ret": ["c", 0.0], "out": ["F", "real"]}
    nested = {"callee": inner, "args": [], "addr": ["g"]}
    plain = [leaf("v%d" % i) for i in range(rng.choice([1, 2]))]
    pos = rng.choice([0, 0, 1])
    stmts = plain[:pos] + [nested] + plain[pos:]
    kind = rng.choice(["scan", "scan", "iterate", "iterate_final", "repeat", "vmap"])
    n = rng.choice([2, 3])
    if kind == "scan":
        kern = {"k": "static", "ptypes": [["F", "real"], ["N"]], "stmts": stmts, "ret": ["tup", [["p", 0], ["none"]]], "out": ["T", [["F", "real"], ["N"]]]}
        return {"k": "scan", "inner": kern, "n": n, "use_n": True}
    if kind in ("iterate", "iterate_final"):
        kern = {"k": "static", "ptypes": [["F", "real"]], "stmts": stmts, "ret": ["p", 0], "out": ["F", "real"]}
        return {"k": kind, "inner": kern, "n": n}
    kern = {"k": "static", "ptypes": [["F", "real"]], "stmts": stmts, "ret": ["p", 0], "out": ["F", "real"]}
    if kind == "repeat":
        return {"k": "repeat", "inner": kern, "n": n}
    return {"k": "vmap", "inner": kern, "axes": [0], "n": n}


def gen_script(seed, pid="C04", tier="quick"):
    rng = rng_for(seed, "dist")
    if rng.random() < 0.4:
        node = _keystruct_program(rng)
        args = gen.sample_args(rng, node)
        n = 3000 if tier == "quick" else 12000
        return {"v": 1, "pid": "C04", "tier": tier, "seed": seed, "mode": "discrete", "programs": [node], "args": args, "n": n, "key": rng.randrange(1 << 30), "family": "keystruct"}
    mode = rng.choice(["discrete", "discrete", "continuous"])
    P = gen.default_profile()
    P["max_depth"] = 2
    P["max_choices"] = 5
    P["max_cost"] = 18.0
    P["max_stmts"] = 3
    P["lens"] = [1, 2, 2]
    if mode == "discrete":
        P["leaves"] = list(gen.DISCRETE_LEAVES)
    else:
        P["leaves"] = ["normal", "normal", "uniform", "exponential", "beta", "gamma", "flip"]
    for k in ("closure", "partial"):
        P["kinds"][k] = 0.3
    if rng.random() < 0.4:
        # iteration structure: keys per iteration vs keys per call site (a scan
        # kernel whose call sites are themselves generative functions)
        P["root_kinds"] = {"scan": 4, "accumulate": 1, "reduce": 1, "iterate": 2, "iterate_final": 1, "vmap": 2, "repeat": 2}
        P["nest"] = 0.8
        P["max_depth"] = 3
        P["max_choices"] = 8
        P["lens"] = [2, 2, 3]
        P["max_cost"] = 24.0
    node = gen.gen_program_filtered(rng, P, ())
    args = gen.sample_args(rng, node)
    n = 3000 if tier == "quick" else 12000
    return {"v": 1, "pid": "C04", "tier": tier, "seed": seed, "mode": mode, "programs": [node], "args": args, "n": n, "key": rng.randrange(1 << 30)}


def _viol(out, oracle, detail, cls="value"):
    out.append({"oracle": oracle, "props": ["C04"], "step": 0, "replica": 0, "class": cls, "detail": detail[:600]})


def run_session(seed, pid, tier, script=None):
    warnings.filterwarnings("ignore")
    import jax
    import jax.numpy as jnp
    import numpy as np
    from scipy import stats

    from genjax import Mask
    from genjax._src.core.generative.choice_map import ChoiceMapNoValueAtAddress

    from sim import build, obs, ref
    from sim.script import has_kind
    from sim.texpr import CONTINUOUS, dist_cdf

    sc = script or gen_script(seed, pid, tier)
    node = sc["programs"][0]
    gf = build.build(node)
    ins, _ = ref.sig(node)
    jargs = build.args_to_jax(node, sc["args"], "py")
    rargs = [ref.to_ref(v, t) for v, t in zip(sc["args"], ins)]
    uni = ref.universe_map(node)
    addrs = sorted(uni, key=lambda a: [str(c) for c in a])
    viols = []
    fired = {}
    probes = {}

    # (b) key discipline
    try:
        with jax.debug_key_reuse(True):
            gf.simulate(jax.random.key(sc["key"]), jargs)
            gf.propose(jax.random.key(sc["key"] + 1), jargs)
            # Under jit a switch hands the same key variable to lax.switch once per
            # branch closure; JAX's checker counts every operand slot of the cond
            # as consumed and reports a reuse although one branch runs (a false
            # positive of the monitor, shown by the jaxpr): no jit monitor there.
            if not has_kind(node, ("switch", "or_else", "mix")):
                jax.jit(gf.simulate)(jax.random.key(sc["key"] + 2), jargs)
        fired["monitor:key-reuse"] = 3
    except Exception as e:
        if "KeyReuse" in type(e).__name__ or "reuse" in str(e).lower():
            _viol(viols, "C04.key-reuse", "simulate/propose consumed a PRNG key twice: %s: %s" % (type(e).__name__, str(e)[:300]))
        else:
            _viol(viols, "C04.simulate-crash", "simulate under the key-reuse monitor raised %s: %s" % (type(e).__name__, str(e)[:300]), "crash")

    # (c) sample N executions in one staged call
    n = sc["n"]
    keys = jax.random.split(jax.random.key(sc["key"] + 10), n)

    def one(k):
        tr = gf.simulate(k, jargs)
        chm = tr.get_choices()
        out = {}
        for i, a in enumerate(addrs):
            try:
                v = chm[obs.addr_key(a)] if a else chm.get_value()
            except ChoiceMapNoValueAtAddress:
                continue
            if v is None:
                continue
            if isinstance(v, Mask):
                out[i] = (jnp.all(jnp.asarray(v.primal_flag())), v.value)
            else:
                out[i] = (jnp.asarray(True), v)
        return out, tr.get_score()

    try:
        samples, scores = jax.jit(jax.vmap(one))(keys)
    except Exception as e:
        _viol(viols, "C04.simulate-crash", "jit(vmap(simulate)) raised %s: %s" % (type(e).__name__, str(e)[:300]), "crash")
        return _result(sc, viols, fired, probes)
    samples = {i: (np.asarray(f), np.asarray(v)) for i, (f, v) in samples.items()}
    fired["stage:jit+vmap"] = 1

    def assignment(j):
        x = {}
        for i, (f, v) in samples.items():
            if f[j]:
                x[addrs[i]] = obs.norm_leaf_value(v[j])
        return x

    if sc["mode"] == "discrete":
        try:
            table = ref.enumerate_table(node, rargs, limit=512)
        except ValueError:
            probes["table-too-large"] = 1
            return _result(sc, viols, fired, probes)
        counts = {}
        for j in range(n):
            x = assignment(j)
            try:
                _, _, ctx = ref.density(node, rargs, x)
            except ref.RefMissing as e:
                _viol(viols, "C04.sample-incomplete", "sample %d lacks a value at visited address %s" % (j, e.addr))
                break
            key = tuple((a, ref._hashable(v)) for a, _, v, _, _ in ctx.visited)
            counts[key] = counts.get(key, 0) + 1
        total = sum(table.values())
        if abs(total - 1.0) > 1e-6:
            _viol(viols, "C04.harness-table", "reference table sums to %r" % total, "crash")
        g = 0.0
        cells = 0
        for key, p in table.items():
            e = p * n
            if e > 0:
                cells += 1
                o = counts.get(key, 0)
                if o > 0:
                    g += 2.0 * o * math.log(o / e)
        imposs = [k for k in counts if table.get(k, 0.0) <= 0.0]
        if imposs:
            _viol(viols, "C04.impossible-outcome", "simulate produced assignments of probability 0: %s" % (imposs[:2],))
        if cells > 1:
            pval = float(stats.chi2.sf(max(g, 0.0), cells - 1))
            probes["gtest:cells"] = cells
            if pval < P_THRESHOLD:
                worst = sorted(table, key=lambda k: -abs(counts.get(k, 0) - table[k] * n))[:3]
                _viol(viols, "C04.distribution", "G-test over %d cells, N=%d: G=%.1f p=%.2e; largest deviations: %s" % (cells, n, g, pval, [(k, counts.get(k, 0), round(table[k] * n, 1)) for k in worst]))
        probes["mode:discrete"] = 1
    else:
        # probability-integral transform per continuous site
        us = {}
        nn = min(n, 2000)
        for j in range(nn):
            x = assignment(j)
            try:
                _, _, ctx = ref.density(node, rargs, x)
            except ref.RefMissing as e:
                _viol(viols, "C04.sample-incomplete", "sample %d lacks a value at visited address %s" % (j, e.addr))
                break
            for a, leaf, v, lp, params in ctx.visited:
                if leaf["d"] in CONTINUOUS and leaf["d"] != "normalv":
                    us.setdefault(a, {})[j] = dist_cdf(leaf["d"], float(v), tuple(float(p) for p in params))
        sites = sorted(us, key=str)
        for a in sites:
            u = np.array(list(us[a].values()))
            if len(u) >= 200:
                p = float(stats.kstest(u, "uniform").pvalue)
                probes["pit:sites"] = probes.get("pit:sites", 0) + 1
                if p < P_THRESHOLD:
                    _viol(viols, "C04.distribution", "site %s: conditional CDF values not uniform (KS p=%.2e, n=%d): not a draw from the program's distribution" % (a, p, len(u)))
        for ia in range(len(sites)):
            for ib in range(ia + 1, min(len(sites), ia + 3)):
                a, b = sites[ia], sites[ib]
                common = sorted(set(us[a]) & set(us[b]))
                if len(common) < 800:
                    continue
                ua = np.array([us[a][j] for j in common])
                ub = np.array([us[b][j] for j in common])
                h, _, _ = np.histogram2d(ua, ub, bins=4, range=[[0, 1], [0, 1]])
                e = len(common) / 16.0
                chi = float(((h - e) ** 2 / e).sum())
                p = float(stats.chi2.sf(chi, 15))
                probes["pit:pairs"] = probes.get("pit:pairs", 0) + 1
                if p < P_THRESHOLD:
                    _viol(viols, "C04.independence", "sites %s and %s: joint PIT values not uniform on a 4x4 grid (chi2=%.1f p=%.2e): draws are correlated" % (a, b, chi, p))
        probes["mode:continuous"] = 1
    return _result(sc, viols, fired, probes)


def _result(sc, viols, fired, probes):
    from sim.ref import kinds

    kk = kinds(sc["programs"][0])
    return {
        "script": sc,
        "violations": viols,
        "steps": 4,
        "ok_steps": 4,
        "rejected": {},
        "agree_checks": 0,
        "fired": fired,
        "probes": probes,
        "signature": H(json.dumps([kk, sc["mode"]])),
        "nontrivial": len(kk) >= 2,
        "digest": "",
        "kinds": kk[:8],
    }
