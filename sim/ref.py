"""Reference model: program signatures, address universe and an independent
float64 interpreter of the program AST.  No import of genjax or jax here.

A program node is a JSON dict with key "k" (kind).  See sim/gen.py for the
grammar.  Addresses are tuples whose components are str (static) or int
(index level of a vector combinator).
"""

import math

import numpy as np

from sim.texpr import (
    Backend,
    Env,
    RMask,
    dist_logpdf,
    dist_sig,
    dist_support,
    ev,
)

NP64 = Backend(np, np.float64, np.int64, False)

SCAN_LIKE = (
    "scan",
    "accumulate",
    "reduce",
    "iterate",
    "iterate_final",
    "masked_iterate",
    "masked_iterate_final",
)


class RefMissing(Exception):
    """The supplied assignment has no value at a visited address."""

    def __init__(self, addr):
        super().__init__(addr)
        self.addr = addr


# ------------------------------------------------------------------ types


def V(n, t):
    return ["V", n, t]


def T(*ts):
    return ["T", list(ts)]


def lift_axis(n, t, ax):
    """Type of a vmapped argument: axis None = unchanged, 0 = new leading axis,
    1 = mapped over the second axis of a vector-of-scalars argument."""
    if ax is None:
        return t
    if ax == 0:
        return V(n, t)
    assert ax == 1 and t[0] == "V" and t[2][0] in ("F", "B", "I"), t
    return V(t[1], V(n, t[2]))


def sig(node):
    """(input types, output type) of a program node."""
    k = node["k"]
    if k == "dist":
        return dist_sig(node)
    if k == "static":
        return node["ptypes"], node["out"]
    if k == "vmap":
        ins, out = sig(node["inner"])
        n = node["n"]
        lifted = [lift_axis(n, t, ax) for t, ax in zip(ins, node["axes"])]
        return lifted, V(n, out)
    if k == "repeat":
        ins, out = sig(node["inner"])
        return ins, V(node["n"], out)
    if k == "scan":
        (c, x), out = sig(node["inner"])
        n = node["n"]
        cy = out[1]
        xs = ["N"] if x == ["N"] else V(n, x)
        ys = ["N"] if cy[1] == ["N"] else V(n, cy[1])
        return [c, xs], T(cy[0], ys)
    if k == "accumulate":
        (c, x), out = sig(node["inner"])
        return [c, V(node["n"], x)], V(node["n"] + 1, c)
    if k == "reduce":
        (c, x), out = sig(node["inner"])
        return [c, V(node["n"], x)], c
    if k == "iterate":
        (x,), out = sig(node["inner"])
        return [x], V(node["n"] + 1, x)
    if k == "iterate_final":
        (x,), out = sig(node["inner"])
        return [x], x
    if k == "masked_iterate":
        (x,), out = sig(node["inner"])
        return [x, V(node["n"], ["B"])], V(node["n"] + 1, x)
    if k == "masked_iterate_final":
        (x,), out = sig(node["inner"])
        return [x, V(node["n"], ["B"])], x
    if k == "switch":
        sigs = [sig(b) for b in node["branches"]]
        return [["I", len(sigs)]] + [["T", list(s[0])] for s in sigs], node["out"]
    if k == "or_else":
        sa, sb = sig(node["a"]), sig(node["b"])
        return [["B"], ["T", list(sa[0])], ["T", list(sb[0])]], node["out"]
    if k == "mix":
        sigs = [sig(b) for b in node["branches"]]
        return (
            [V(len(sigs), ["F", "real"])] + [["T", list(s[0])] for s in sigs],
            node["out"],
        )
    if k == "mask":
        ins, out = sig(node["inner"])
        # masks do not nest: Mask.build folds the flags together
        return [["B"]] + list(ins), (out if out[0] == "M" else ["M", out])
    if k == "dimap":
        return node["ptypes"], node["out"]
    if k == "map":
        ins, _ = sig(node["inner"])
        return ins, node["out"]
    if k == "contramap":
        _, out = sig(node["inner"])
        return node["ptypes"], out
    if k in ("closure", "partial"):
        ins, out = sig(node["inner"])
        return ins[len(node["stored"]) :], out
    raise ValueError(k)


def inner_nodes(node):
    k = node["k"]
    if k == "static":
        return [s["callee"] for s in node["stmts"]]
    if k in ("switch", "mix"):
        return list(node["branches"])
    if k == "or_else":
        return [node["a"], node["b"]]
    if "inner" in node:
        return [node["inner"]]
    return []


def kinds(node, acc=None):
    if acc is None:
        acc = []
    acc.append(node["k"] if node["k"] != "dist" else "dist:" + node["d"])
    for c in inner_nodes(node):
        kinds(c, acc)
    return acc


def depth(node):
    cs = inner_nodes(node)
    return 1 + (max(depth(c) for c in cs) if cs else 0)


def addr_of(stmt):
    a = stmt["addr"]
    return tuple(a)


def universe(node, prefix=()):
    """All (address, leaf node) pairs the program can ever visit, for every
    branch, index and flag (list; an address may repeat across switch branches,
    by construction with the same leaf kind)."""
    k = node["k"]
    if k == "dist":
        return [(prefix, node)]
    if k == "static":
        out = []
        for s in node["stmts"]:
            out += universe(s["callee"], prefix + addr_of(s))
        return out
    if k in ("vmap", "repeat") or k in SCAN_LIKE:
        out = []
        for i in range(node["n"]):
            out += universe(node["inner"], prefix + (i,))
        return out
    if k == "switch":
        out = []
        for b in node["branches"]:
            out += universe(b, prefix)
        return out
    if k == "or_else":
        return universe(node["a"], prefix) + universe(node["b"], prefix)
    if k == "mix":
        out = [
            (
                prefix + ("mixture_component",),
                {"k": "dist", "d": "categorical", "n": len(node["branches"])},
            )
        ]
        for b in node["branches"]:
            out += universe(b, prefix + ("component_sample",))
        return out
    if "inner" in node:
        return universe(node["inner"], prefix)
    raise ValueError(k)


def universe_map(node):
    m = {}
    for a, leaf in universe(node):
        m.setdefault(a, leaf)
    return m


def call_sites(node, prefix=()):
    """Addresses of static-language call sites reachable through get_subtrace
    chains: list of (list of address steps, callee node).  Each step is the
    StaticAddress given to one get_inner_trace call."""
    out = []
    k = node["k"]
    if k == "static":
        for s in node["stmts"]:
            a = s["addr"]
            step = a[0] if len(a) == 1 else tuple(a)
            out.append(([step], s["callee"], prefix + addr_of(s)))
    return out


# ------------------------------------------------------------ value utils


def to_ref(v, t):
    """JSON value of type t -> reference value (np arrays for vectors)."""
    k = t[0]
    if k == "F":
        return float(v)
    if k == "I":
        return int(v)
    if k == "B":
        return bool(v)
    if k == "N":
        return None
    if k == "T":
        return tuple(to_ref(x, s) for x, s in zip(v, t[1]))
    if k == "V":
        return stack_typed([to_ref(x, t[2]) for x in v], t[2])
    raise ValueError(t)


def stack_typed(vals, t):
    """Stack n reference values of type t along a new leading axis."""
    k = t[0]
    if k == "F":
        return np.array(vals, dtype=np.float64).reshape((len(vals),))
    if k == "I":
        return np.array(vals, dtype=np.int64).reshape((len(vals),))
    if k == "B":
        return np.array(vals, dtype=bool).reshape((len(vals),))
    if k == "N":
        return None
    if k == "T":
        return tuple(
            stack_typed([v[i] for v in vals], s) for i, s in enumerate(t[1])
        )
    if k == "M":
        return RMask(
            np.array([bool(np.all(v.flag)) for v in vals], dtype=bool),
            stack_typed(
                [v.value if v.value is not None else zero_of(t[1]) for v in vals], t[1]
            ),
        )
    if k == "V":
        inner = [v for v in vals]
        if not inner:
            return _empty_of(t, 0)
        return _stack_arrays(inner)
    if k == "D":
        return {kk: stack_typed([v[kk] for v in vals], s) for kk, s in t[1].items()}
    raise ValueError(t)


def zero_of(t):
    k = t[0]
    if k == "F":
        return 0.0
    if k == "I":
        return 0
    if k == "B":
        return False
    if k == "N":
        return None
    if k == "T":
        return tuple(zero_of(s) for s in t[1])
    if k == "M":
        return RMask(False, zero_of(t[1]))
    if k == "V":
        return stack_typed([zero_of(t[2])] * t[1], t[2])
    raise ValueError(t)


def _stack_arrays(vals):
    v0 = vals[0]
    if isinstance(v0, MaskedIterRet):
        return MaskedIterRet(
            _stack_arrays([v.stacked for v in vals]),
            np.stack([np.asarray(v.valid, dtype=bool) for v in vals]),
        )
    if isinstance(v0, tuple):
        return tuple(_stack_arrays([v[i] for v in vals]) for i in range(len(v0)))
    if isinstance(v0, RMask):
        return RMask(
            _stack_arrays([v.flag for v in vals]), _stack_arrays([v.value for v in vals])
        )
    if v0 is None:
        return None
    if isinstance(v0, dict):
        return {kk: _stack_arrays([v[kk] for v in vals]) for kk in v0}
    return np.stack([np.asarray(v) for v in vals])


def _empty_of(t, n):
    k = t[0]
    if k == "V":
        sub = _empty_of(t[2], t[1])
        return _bcast0(sub, n)
    if k == "F":
        return np.zeros((n,), dtype=np.float64)
    if k == "I":
        return np.zeros((n,), dtype=np.int64)
    if k == "B":
        return np.zeros((n,), dtype=bool)
    if k == "N":
        return None
    if k == "T":
        return tuple(_empty_of(s, n) for s in t[1])
    if k == "M":
        return RMask(np.zeros((n,), dtype=bool), _empty_of(t[1], n))
    raise ValueError(t)


def _bcast0(v, n):
    if isinstance(v, tuple):
        return tuple(_bcast0(x, n) for x in v)
    if v is None:
        return None
    if isinstance(v, RMask):
        return RMask(_bcast0(v.flag, n), _bcast0(v.value, n))
    return np.zeros((n,) + np.shape(v), dtype=np.asarray(v).dtype)


def index_ref(v, i):
    """i-th slice of a stacked reference value."""
    if isinstance(v, tuple):
        return tuple(index_ref(x, i) for x in v)
    if v is None:
        return None
    if isinstance(v, RMask):
        return RMask(index_ref(v.flag, i), index_ref(v.value, i))
    if isinstance(v, dict):
        return {k: index_ref(x, i) for k, x in v.items()}
    return v[i]


def prepend(init, arr):
    if isinstance(init, tuple):
        return tuple(prepend(a, b) for a, b in zip(init, arr))
    if init is None:
        return None
    return np.concatenate([np.asarray(init)[np.newaxis], np.asarray(arr)])


# --------------------------------------------------------------- the model


class Ctx:
    """One reference execution.

    x        : dict address -> value (the complete or partial assignment)
    chooser  : optional callback(addr, leaf, params) for unassigned addresses
    visited  : list of (addr, leaf, value, logp, params) in execution order
    calls    : dict address-of-call-site -> log density contributed by that call
    """

    def __init__(self, x, chooser=None):
        self.x = x
        self.chooser = chooser
        self.visited = []
        self.calls = {}

    def value_for(self, addr, leaf, params):
        if addr in self.x:
            return self.x[addr]
        if self.chooser is not None:
            v = self.chooser(addr, leaf, params)
            self.x[addr] = v
            return v
        raise RefMissing(addr)


def _leaf_value_norm(leaf, v):
    d = leaf["d"]
    if d == "flip":
        return bool(v)
    if d in ("bernoulli", "categorical"):
        return int(v)
    if d == "normalv":
        return np.asarray(v, dtype=np.float64)
    if d == "flipv":
        return np.asarray(v, dtype=bool)
    return float(v)


def run(node, args, ctx, prefix=()):
    """Execute `node` on reference args under ctx; returns (logp, retval)."""
    k = node["k"]
    if k == "dist":
        params = tuple(args)
        v = _leaf_value_norm(node, ctx.value_for(prefix, node, params))
        lp = dist_logpdf(node["d"], v, params)
        ctx.visited.append((prefix, node, v, lp, params))
        return lp, v
    if k == "static":
        kwv = args[len(node["ptypes"]) :]
        kw = {}
        if node.get("kwp"):
            kw = dict(zip(sorted(node["kwp"]), kwv))
        env = Env(list(args[: len(node["ptypes"])]), [], kw)
        total = 0.0
        for s in node["stmts"]:
            cargs = [ev(a, env, NP64) for a in s["args"]]
            callee = s["callee"]
            if s.get("kw"):
                # keyword arguments follow the positional ones, sorted by name
                cargs = cargs + [ev(s["kw"][n], env, NP64) for n in sorted(s["kw"])]
            a = prefix + addr_of(s)
            lp, v = run(callee, cargs, ctx, a)
            ctx.calls[a] = lp
            total += lp
            env.vals.append(v)
        return total, ev(node["ret"], env, NP64)
    if k in ("vmap", "repeat"):
        n = node["n"]
        inner = node["inner"]
        _, iout = sig(inner)
        total = 0.0
        outs = []
        for i in range(n):
            if k == "vmap":
                a_i = [
                    index_ref(a, i) if ax == 0 else (np.take(a, i, axis=1) if ax == 1 else a)
                    for a, ax in zip(args, node["axes"])
                ]
            else:
                a_i = list(args)
            lp, v = run(inner, a_i, ctx, prefix + (i,))
            total += lp
            outs.append(v)
        return total, stack_typed(outs, iout)
    if k == "scan":
        carry, xs = args
        inner = node["inner"]
        (_, _), iout = sig(inner)
        total = 0.0
        ys = []
        for i in range(node["n"]):
            x = None if xs is None else index_ref(xs, i)
            lp, (carry, y) = run(inner, [carry, x], ctx, prefix + (i,))
            total += lp
            ys.append(y)
        yt = iout[1][1]
        return total, (carry, None if yt == ["N"] else stack_typed(ys, yt))
    if k in ("accumulate", "reduce"):
        carry, xs = args
        inner = node["inner"]
        (ct, _), _ = sig(inner)
        total = 0.0
        carries = []
        init = carry
        for i in range(node["n"]):
            lp, carry = run(inner, [carry, index_ref(xs, i)], ctx, prefix + (i,))
            total += lp
            carries.append(carry)
        if k == "reduce":
            return total, carry
        return total, prepend(init, stack_typed(carries, ct))
    if k in ("iterate", "iterate_final"):
        (x,) = args
        inner = node["inner"]
        (xt,), _ = sig(inner)
        total = 0.0
        seen = []
        init = x
        for i in range(node["n"]):
            lp, x = run(inner, [x], ctx, prefix + (i,))
            total += lp
            seen.append(x)
        if k == "iterate_final":
            return total, x
        return total, prepend(init, stack_typed(seen, xt))
    if k in ("masked_iterate", "masked_iterate_final"):
        x, flags = args
        inner = node["inner"]
        (xt,), _ = sig(inner)
        total = 0.0
        seen = []
        init = x
        for i in range(node["n"]):
            if bool(flags[i]):
                lp, x = run(inner, [x], ctx, prefix + (i,))
                total += lp
            # masked-off step: no choices, no score, iterated value unchanged
            seen.append(x)
        if k == "masked_iterate_final":
            return total, x
        return total, prepend(init, stack_typed(seen, xt))
    if k == "switch":
        idx = int(args[0])
        nb = len(node["branches"])
        j = min(max(idx, 0), nb - 1)  # documented: clamped
        return run(node["branches"][j], list(args[1 + j]), ctx, prefix)
    if k == "or_else":
        flag = bool(args[0])
        if flag:
            return run(node["a"], list(args[1]), ctx, prefix)
        return run(node["b"], list(args[2]), ctx, prefix)
    if k == "mix":
        logits = np.asarray(args[0], dtype=np.float64)
        leaf = {"k": "dist", "d": "categorical", "n": len(node["branches"])}
        lp0, j = run(leaf, [logits], ctx, prefix + ("mixture_component",))
        ctx.calls[prefix + ("mixture_component",)] = lp0
        lp1, v = run(
            node["branches"][j], list(args[1 + j]), ctx, prefix + ("component_sample",)
        )
        ctx.calls[prefix + ("component_sample",)] = lp1
        return lp0 + lp1, v
    if k == "mask":
        flag = bool(args[0])
        if not flag:
            return 0.0, RMask(False, None)
        lp, v = run(node["inner"], list(args[1:]), ctx, prefix)
        if isinstance(v, RMask):
            return lp, v  # flags fold: True and inner flag
        return lp, RMask(True, v)
    if k == "dimap":
        env = Env(list(args), [])
        iargs = [ev(e, env, NP64) for e in node["pre"]]
        lp, v = run(node["inner"], iargs, ctx, prefix)
        env2 = Env(list(args), [v] + iargs)
        return lp, ev(node["post"], env2, NP64)
    if k == "map":
        lp, v = run(node["inner"], list(args), ctx, prefix)
        return lp, ev(node["post"], Env(list(args), [v]), NP64)
    if k == "contramap":
        env = Env(list(args), [])
        iargs = [ev(e, env, NP64) for e in node["pre"]]
        return run(node["inner"], iargs, ctx, prefix)
    if k in ("closure", "partial"):
        inner = node["inner"]
        ins, _ = sig(inner)
        stored = [to_ref(v, t) for v, t in zip(node["stored"], ins)]
        full = stored + list(args)
        if node.get("kwvals"):
            kwp = inner["kwp"]
            full = full + [to_ref(node["kwvals"][n], kwp[n]) for n in sorted(kwp)]
        return run(inner, full, ctx, prefix)
    raise ValueError(k)


class MaskedIterRet:
    """Return value of masked_iterate in the reference: stacked values plus a
    per-position validity list (positions after a masked-off step are not
    specified by the property and are not compared)."""

    def __init__(self, stacked, valid):
        self.stacked = stacked
        self.valid = valid


def density(node, args, x):
    """(logp, retval, ctx) of the complete assignment x; raises RefMissing."""
    ctx = Ctx(dict(x))
    lp, rv = run(node, args, ctx)
    return lp, rv, ctx


def visited_set(node, args, x):
    _, _, ctx = density(node, args, x)
    return [v[0] for v in ctx.visited]


def enumerate_table(node, args, limit=4096):
    """Exact probability table {frozen assignment -> prob} of a finite discrete
    program, by odometer enumeration over supports in execution order."""
    table = {}
    stack = []  # decisions: list of [choice_index, support_size]
    while True:
        pos = [0]

        def chooser(addr, leaf, params, pos=pos):
            sup = dist_support(leaf["d"], params)
            if sup is None:
                raise ValueError("not finite discrete: %s" % leaf["d"])
            i = pos[0]
            if i == len(stack):
                stack.append([0, len(sup)])
            pos[0] += 1
            return sup[stack[i][0]]

        ctx = Ctx({}, chooser)
        lp, _ = run(node, args, ctx)
        key = tuple((a, _hashable(v)) for a, _, v, _, _ in ctx.visited)
        table[key] = table.get(key, 0.0) + math.exp(lp)
        if len(table) > limit:
            raise ValueError("table too large")
        # advance odometer
        del stack[pos[0] :]
        while stack and stack[-1][0] + 1 >= stack[-1][1]:
            stack.pop()
        if not stack:
            break
        stack[-1][0] += 1
    return table


def _hashable(v):
    if isinstance(v, np.ndarray):
        return tuple(v.tolist())
    return v


def index_feeders(node, prefix=(), acc=None):
    """Static parts of the addresses of choices whose value is the branch index
    of a switch (mix's "mixture_component"; `i ~ categorical; switch(i, ...)`)."""
    from sim.texpr import expr_refs

    if acc is None:
        acc = set()
    k = node["k"]
    if k == "mix":
        acc.add(prefix + ("mixture_component",))
        for b in node["branches"]:
            index_feeders(b, prefix + ("component_sample",), acc)
        return acc
    if k == "static":
        for j, s in enumerate(node["stmts"]):
            c = s["callee"]
            core = c
            while core["k"] in ("map", "dimap", "contramap"):
                core = core["inner"]
            if core["k"] in ("switch", "or_else") and s["args"]:
                for r in expr_refs(s["args"][0]):
                    if r[0] == "v" and r[1] < j and node["stmts"][r[1]]["callee"]["k"] == "dist":
                        acc.add(prefix + addr_of(node["stmts"][r[1]]))
            index_feeders(c, prefix + addr_of(s), acc)
        return acc
    for c in inner_nodes(node):
        index_feeders(c, prefix, acc)
    return acc


def switch_map(node, prefix=(), under=(), direct=True, acc=None, counter=None):
    """address -> tuple of (switch id, is_direct) for every switch-like node the
    address lies under.  `direct` switches are those whose index is literally the
    first root argument (root switch / or_else, possibly below `map` wrappers);
    for them the index is tagged UnknownChange iff that argument changed.  All
    other switch-like nodes get their index from an expression or a sampled
    value, and the tag they see depends on change propagation."""
    if acc is None:
        acc = {}
        counter = [0]
    k = node["k"]
    if k == "dist":
        acc.setdefault(prefix, set()).update(under)
        return acc
    if k == "static":
        for s in node["stmts"]:
            switch_map(s["callee"], prefix + addr_of(s), under, False, acc, counter)
        return acc
    if k in ("vmap", "repeat") or k in SCAN_LIKE:
        for i in range(node["n"]):
            switch_map(node["inner"], prefix + (i,), under, False, acc, counter)
        return acc
    if k in ("switch", "or_else", "mix"):
        counter[0] += 1
        sid = counter[0]
        brs = node["branches"] if k != "or_else" else [node["a"], node["b"]]
        u2 = under + ((sid, bool(direct and k != "mix")),)
        if k == "mix":
            acc.setdefault(prefix + ("mixture_component",), set()).update(under)
            for b in brs:
                switch_map(b, prefix + ("component_sample",), u2, False, acc, counter)
        else:
            for b in brs:
                switch_map(b, prefix, u2, False, acc, counter)
        return acc
    if "inner" in node:
        switch_map(node["inner"], prefix, under, direct and k == "map", acc, counter)
        return acc
    raise ValueError(k)
