"""Runner: seeds -> sessions -> workers -> violations -> known findings ->
minimised replay files -> evidence.  The parent process never imports JAX.

Exit codes: 0 property held on everything explored (KNOWN-FINDING lines allowed),
1 VIOLATION (line printed), 2 harness error (never a verdict).
"""

import argparse
import json
import os
import sys
import time
import traceback

ROOT = os.path.dirname(os.path.dirname(os.path.abspath(__file__)))
if ROOT not in sys.path:
    sys.path.insert(0, ROOT)

from sim.seedhash import H  # noqa: E402

# One session may take this long (SIGALRM raises SessionTimeout in the worker's
# main thread: the session is then reported as not explored and the worker goes
# on); the faulthandler backstop kills a worker that is stuck in native code.
SESSION_CAP_S = {"quick": 600, "thorough": 1200}
SESSION_KILL_S = 2400


class SessionTimeout(BaseException):
    """Not an Exception: the executors' `except Exception` (which turn library
    errors into violations) must not swallow it."""


def _on_alarm(signum, frame):
    raise SessionTimeout()


# wall-clock budget per batch (the registered commands run under `timeout 7000`)
BUDGET_S = {"quick": 3000, "thorough": 5400}

QUICK_SESSIONS = {
    "default": 40,
    "C23": 64,  # every operation x every staging: the widest product of all profiles
    "C17": 1600,
    "C19": 640,
    "C31": 320,
}
THOROUGH_SESSIONS = {
    "default": 240,
    "C17": 12000,
    "C19": 16000,
    "C31": 8000,
}


def n_sessions(pid, tier):
    env = os.environ.get("VERIF_SESSIONS")
    if env:
        return int(env)
    t = QUICK_SESSIONS if tier == "quick" else THOROUGH_SESSIONS
    return t.get(pid, t["default"])


# ---------------------------------------------------------------- worker side


def _worker_init():
    os.environ.setdefault("JAX_PLATFORMS", "cpu")
    import warnings

    warnings.filterwarnings("ignore")


def _json_default(o):
    import numpy as np

    if isinstance(o, np.ndarray):
        return o.tolist()
    if isinstance(o, (np.floating, np.integer, np.bool_)):
        return o.item()
    if isinstance(o, tuple):
        return list(o)
    return str(o)


def run_one(job):
    """Execute one session (engine A, B or C) in this worker; returns a JSON-able dict."""
    import faulthandler

    pid, tier, j, seed, engine = job["pid"], job["tier"], job["j"], job["seed"], job["engine"]
    import signal

    faulthandler.dump_traceback_later(SESSION_KILL_S, exit=True)
    __import__("sim." + engine)  # imports (jax, genjax) are never interrupted
    signal.signal(signal.SIGALRM, _on_alarm)
    signal.alarm(int(os.environ.get("VERIF_SESSION_CAP_S") or SESSION_CAP_S.get(tier, 600)))
    t0 = time.time()
    out = {"j": j, "seed": seed, "pid": pid}
    try:
        if engine == "gfisim":
            from sim import gfisim
            from sim import script as S

            sc = job.get("script") or S.gen_session(seed, pid, tier)
            sess = gfisim.execute(sc)
            out.update(summarise_gfisim(sc, sess, pid))
        elif engine == "chmsim":
            from sim import chmsim

            out.update(chmsim.run_session(seed, pid, tier, job.get("script")))
        elif engine == "ttsim":
            from sim import ttsim

            out.update(ttsim.run_session(seed, pid, tier, job.get("script")))
        elif engine == "distsim":
            from sim import distsim

            out.update(distsim.run_session(seed, pid, tier, job.get("script")))
        else:
            raise ValueError(engine)
    except SessionTimeout:
        out = {"j": j, "seed": seed, "pid": pid, "timed_out": True}
    except Exception as e:
        out["harness_error"] = "%s: %s\n%s" % (type(e).__name__, str(e)[:500], traceback.format_exc()[-1500:])
    finally:
        signal.alarm(0)
        faulthandler.cancel_dump_traceback_later()
    out["wall"] = time.time() - t0
    return out


def summarise_gfisim(sc, sess, pid):
    from sim import gfisim
    from sim import script as S
    from sim.ref import kinds

    sig = S.script_signature(sc)
    vs = [v.to_json() for v in sess.violations]
    nontrivial = (
        any(k != "static" and not k.startswith("dist") for k in sig[0])
        and any(o not in ("simulate", "project", "subtrace") for o in sig[1])
        and sum(sess.fired.values()) > 0
    )
    return {
        "script": sc,
        "violations": vs,
        "steps": sess.counts["steps"],
        "ok_steps": sess.counts["ok"],
        "rejected": sess.counts["rejected"],
        "agree_checks": sess.counts["agree_checks"],
        "fired": sess.fired,
        "probes": sess.probes,
        "signature": H(json.dumps(sig, default=str)),
        "nontrivial": bool(nontrivial),
        "digest": gfisim.event_digest(sess),
        "kinds": kinds(sc["programs"][0])[:8],
    }


def run_chunk(jobs):
    """Sessions of one worker, in order; sessions that would start after the
    batch's wall-clock budget are not started (each session is still a pure
    function of its seed: the budget only decides how many are explored)."""
    _worker_init()
    out = []
    for j in jobs:
        dl = j.get("deadline")
        if dl is not None and time.time() > dl:
            out.append({"j": j["j"], "seed": j["seed"], "pid": j["pid"], "not_started": True})
        else:
            out.append(run_one(j))
    return out


# ---------------------------------------------------------------- parent side


def run_jobs(jobs, workers):
    """Round-robin shard, fresh spawned interpreters, results in job order."""
    import multiprocessing as mp
    from concurrent.futures import ProcessPoolExecutor

    workers = max(1, min(workers, len(jobs)))
    if workers == 1 and os.environ.get("VERIF_INPROC"):
        return run_chunk(jobs)
    shards = [jobs[i::workers] for i in range(workers)]
    ctx = mp.get_context("spawn")
    results = []
    with ProcessPoolExecutor(max_workers=workers, mp_context=ctx) as ex:
        futs = [ex.submit(run_chunk, sh) for sh in shards]
        for f in futs:
            results += f.result()
    results.sort(key=lambda r: r["j"])
    return results


def engine_for(pid):
    from sim.registry import ENGINE

    return ENGINE[pid]


def load_findings():
    p = os.path.join(ROOT, "known_findings.json")
    if not os.path.exists(p):
        return {"findings": [], "fixed": []}
    with open(p) as f:
        return json.load(f)


def main_check(pid, tier, seed, workers, sessions=None, keep_going=False):
    from sim import findings as F

    t0 = time.time()
    engine = engine_for(pid)
    engines = engine if isinstance(engine, list) else [engine]
    n = sessions or n_sessions(pid, tier)
    jobs = [
        {"pid": pid, "tier": tier, "j": j, "seed": H(seed, pid, tier, j), "engine": engines[j % len(engines)]}
        for j in range(n)
    ]
    engine = engines[0]
    budget = float(os.environ.get("VERIF_BUDGET_S") or (BUDGET_S[tier]))
    for jb in jobs:
        jb["deadline"] = t0 + budget
    results = run_jobs(jobs, workers)
    not_started = [r for r in results if r.get("not_started")]
    timed_out = [r for r in results if r.get("timed_out")]
    results = [r for r in results if not r.get("not_started") and not r.get("timed_out")]
    for r in timed_out:
        print("session %d (seed %d) exceeded the per-session cap: not explored (replayable with its seed)" % (r["j"], r["seed"]))
    if not_started:
        print("wall-clock budget of %ds reached: %d of %d sessions explored" % (budget, len(results), n))
    if not results:
        print("no session explored: no verdict")
        return 2
    herr = [r for r in results if r.get("harness_error")]
    if herr:
        for r in herr[:5]:
            print("HARNESS-ERROR session %d seed %d: %s" % (r["j"], r["seed"], r["harness_error"]))
        print("harness errors in %d of %d sessions: no verdict" % (len(herr), n))
        return 2
    known = load_findings()
    # 1. replay the witnesses of listed findings for this property
    kf_lines = F.replay_witnesses(pid, known, workers)
    # 2. classify violations found by exploration
    mine = []
    known_hits = {}
    for r in results:
        for v in r.get("violations", []):
            if pid not in v["props"]:
                continue
            fid = F.match(known, pid, r.get("script"), v)
            if fid:
                known_hits[fid] = known_hits.get(fid, 0) + 1
            else:
                mine.append((r, v))
    exit_code = 0
    replay_paths = []
    if mine:
        from sim import shrink

        # report the first few distinct ones, minimised
        seen = set()
        for r, v in mine:
            fp = (v["oracle"], v["class"])
            if fp in seen:
                continue
            seen.add(fp)
            if len(seen) > 3:
                break
            path = shrink.minimise_and_write(pid, tier, engines[r["j"] % len(engines)], r, v, known)
            if path is None:
                # minimised form matched a known finding
                continue
            replay_paths.append(path)
            print("VIOLATION property=%s replay=%s" % (pid, path))
            print("  oracle=%s class=%s step=%s replica=%s seed=%d session=%d" % (v["oracle"], v["class"], v["step"], v["replica"], r["seed"], r["j"]))
            print("  %s" % v["detail"][:400])
            exit_code = 1
    for line in kf_lines:
        print(line)
    write_evidence(pid, tier, seed, sorted(set(engines)), results, time.time() - t0, len(replay_paths), known_hits, kf_lines)
    nv = len(mine)
    print(
        "%s %s: %d sessions, %d steps, %d violations of this property (%d distinct reported), %d matched known findings, %.1fs"
        % (pid, tier, len(results), sum(r.get("steps", 0) for r in results), nv, len(replay_paths), sum(known_hits.values()), time.time() - t0)
    )
    return exit_code


def write_evidence(pid, tier, seed, engine, results, wall, nviol, known_hits, kf_lines):
    fired = {}
    probes = {}
    rejected = {}
    sigs = set()
    steps = 0
    agree = 0
    for r in results:
        steps += r.get("steps", 0)
        agree += r.get("agree_checks", 0)
        for k, v in r.get("fired", {}).items():
            fired[k] = fired.get(k, 0) + v
        for k, v in r.get("probes", {}).items():
            probes[k] = probes.get(k, 0) + v
        for k, v in r.get("rejected", {}).items():
            rejected[k] = rejected.get(k, 0) + v
        if r.get("nontrivial"):
            sigs.add(r.get("signature"))
    samples = []
    for r in results[:3]:
        sc = r.get("script")
        if sc is not None:
            samples.append(sc)
    from sim.registry import RULES

    ev = {
        "property_id": pid,
        "tier": tier,
        "seed": seed,
        "level": "exploration",
        "coverage": {
            "evaluations": len(results),
            "distinct_nontrivial": len(sigs),
            "rule": " || ".join(RULES.get(e, "") for e in engine),
            "samples": samples,
            "steps_executed": steps,
            "sessions_per_hour": round(len(results) / max(wall, 1e-9) * 3600),
            "steps_per_hour": round(steps / max(wall, 1e-9) * 3600),
            "fault_kinds_fired": dict(sorted(fired.items())),
            "replica_agreement_checks": agree,
            "rejected_operations_by_exception": dict(sorted(rejected.items())),
            "probes": dict(sorted(probes.items())),
            "known_finding_hits": known_hits,
            "known_finding_lines": kf_lines,
            "simulated_time": "n/a (no clock in the system under test)",
            "components": {"real": ["genjax", "jax", "tensorflow_probability"], "stubbed": []},
            "workers": int(os.environ.get("VERIF_WORKERS", "8")),
        },
        "assumptions": [
            "reference interpreter sim/ref.py and acceptance table sim/script.py are correct (written from the documentation)",
            "JAX PRNG and XLA CPU are deterministic (checked by ./check selftest)",
            "bounds: depth<=3, vector length<=3, <=12 scalar choices, nine leaf distributions, float32",
        ],
        "wall_s": round(wall, 2),
        "violations": nviol,
    }
    out_root = os.environ.get("VERIF_OUT", ROOT)  # VERIF_OUT: scratch runs against mutants
    os.makedirs(os.path.join(out_root, "evidence"), exist_ok=True)
    with open(os.path.join(out_root, "evidence", "%s.json" % pid), "w") as f:
        json.dump(ev, f, indent=1, default=_json_default)
        f.write("\n")


def main_replay(path, workers=1):
    with open(path) as f:
        rp = json.load(f)
    from sim import shrink

    res = shrink.run_replay(rp)
    if res["reproduced"]:
        print("VIOLATION property=%s replay=%s" % (rp["property_id"], path))
        print("  reproduced fingerprint %s: %s" % (rp["fingerprint"], res["detail"][:400]))
        return 1
    print("replay %s: no longer fails (%s)" % (path, res.get("note", "")))
    return 0


def main():
    ap = argparse.ArgumentParser()
    ap.add_argument("what")
    ap.add_argument("path", nargs="?")
    ap.add_argument("--tier", default=os.environ.get("VERIF_TIER", "quick"))
    ap.add_argument("--sessions", type=int)
    ap.add_argument("--workers", type=int, default=int(os.environ.get("VERIF_WORKERS", "8")))
    ap.add_argument("--seed", type=int, default=int(os.environ.get("VERIF_SEED", "0")))
    a = ap.parse_args()
    try:
        if a.what == "replay":
            return main_replay(a.path)
        if a.what == "setup":
            from sim import selftest

            return selftest.setup()
        if a.what == "selftest":
            from sim import selftest

            return selftest.main(a.workers)
        if a.what == "census":
            from sim import census

            return census.main(a.path, a.tier, a.seed, a.workers, a.sessions or 64)
        return main_check(a.what, a.tier, a.seed, a.workers, a.sessions)
    except SystemExit:
        raise
    except BaseException:
        traceback.print_exc()
        print("HARNESS-ERROR: no verdict")
        return 2


if __name__ == "__main__":
    sys.exit(main())
