"""Minimisation of failing scripts (ddmin over replicas, perturbations, steps and
constraint entries while the same (oracle id, violation class) persists), replay
files, and exact replay in a fresh interpreter."""

import copy
import json
import os
import subprocess
import sys
import time

ROOT = os.path.dirname(os.path.dirname(os.path.abspath(__file__)))

SHRINK_BUDGET_RUNS = 80
SHRINK_BUDGET_S = 240


def _violations_of(engine, script, pid):
    """Execute a script in this process; list of violation dicts."""
    if engine == "gfisim":
        from sim import gfisim

        sess = gfisim.execute(script)
        return [v.to_json() for v in sess.violations]
    if engine == "chmsim":
        from sim import chmsim

        return chmsim.run_session(script["seed"], pid, script.get("tier", "quick"), script)["violations"]
    if engine == "ttsim":
        from sim import ttsim

        return ttsim.run_session(script["seed"], pid, script.get("tier", "quick"), script)["violations"]
    if engine == "distsim":
        from sim import distsim

        return distsim.run_session(script["seed"], pid, script.get("tier", "quick"), script)["violations"]
    raise ValueError(engine)


def _find(vs, pid, fp):
    for v in vs:
        if pid in v["props"] and (v["oracle"], v["class"]) == tuple(fp):
            return v
    return None


def _candidates_gfisim(script, v):
    """Yield simpler variants of the script, most aggressive first."""
    sc = script
    # 1. fewer replicas
    ids = [r["id"] for r in sc["replicas"]]
    keep = sorted({0, v["replica"]})
    if ids != keep:
        c = copy.deepcopy(sc)
        c["replicas"] = [r for r in c["replicas"] if r["id"] in keep]
        yield "replicas", c
    # 2. drop the decoy program
    if len(sc["programs"]) > 1:
        c = copy.deepcopy(sc)
        c["programs"] = c["programs"][:1]
        yield "decoy", c
    # 3. truncate after the violating step
    if v["step"] + 1 < len(sc["steps"]):
        c = copy.deepcopy(sc)
        n = v["step"] + 1
        c["steps"] = c["steps"][:n]
        for r in c["replicas"]:
            r["perts"] = r["perts"][:n]
        yield "truncate", c
    # 4. drop single steps (later first), never the violating one
    for i in reversed(range(len(sc["steps"]))):
        if i == v["step"]:
            continue
        c = copy.deepcopy(sc)
        del c["steps"][i]
        for r in c["replicas"]:
            if i < len(r["perts"]):
                del r["perts"][i]
        yield "step%d" % i, c
    # 5. drop perturbations one at a time
    for ri, r in enumerate(sc["replicas"]):
        for i, ps in enumerate(r["perts"]):
            for p in ps:
                c = copy.deepcopy(sc)
                c["replicas"][ri]["perts"][i] = [q for q in ps if q != p]
                yield "pert", c
    # 6. drop constraint entries
    for i, st in enumerate(sc["steps"]):
        cons = st.get("constraint")
        if cons and len(cons) > 0:
            for j in range(len(cons)):
                c = copy.deepcopy(sc)
                del c["steps"][i]["constraint"][j]
                yield "cons", c
    # 6b. simpler program with the same signature
    try:
        for what, prog in _program_candidates(sc["programs"][0]):
            c = copy.deepcopy(sc)
            c["programs"][0] = prog
            yield what, _fix_steps_for_program(c)
    except Exception:
        pass
    # 7. simpler encodings / api
    for i, st in enumerate(sc["steps"]):
        if st.get("build") not in (None, "set"):
            c = copy.deepcopy(sc)
            c["steps"][i]["build"] = "set"
            yield "build", c
        if st.get("annotate"):
            c = copy.deepcopy(sc)
            c["steps"][i]["annotate"] = False
            yield "annotate", c
        if st.get("api") not in (None, "req.edit"):
            c = copy.deepcopy(sc)
            c["steps"][i]["api"] = "req.edit"
            yield "api", c


def _renumber(e, j):
    """expression with references to statement values > j shifted down by one"""
    if isinstance(e, list):
        if len(e) == 2 and e[0] == "v" and isinstance(e[1], int):
            return ["v", e[1] - 1] if e[1] > j else e
        return [_renumber(x, j) for x in e]
    if isinstance(e, dict):
        return {k: _renumber(x, j) for k, x in e.items()}
    return e


def _refs_v(e, j):
    from sim.texpr import expr_refs

    return ("v", j) in expr_refs(e)


def _program_candidates(node, path=()):
    """(description, new root) for simpler programs with the SAME signature:
    drop a static statement whose value nothing reads; replace a `map` by its
    inner function when the output type is the same."""
    from sim.ref import inner_nodes, sig

    out = []

    def rebuild(root, path, repl):
        if not path:
            return repl
        root = copy.deepcopy(root)
        cur = root
        for key in path[:-1]:
            cur = cur[key] if not isinstance(key, tuple) else cur[key[0]][key[1]]
        key = path[-1]
        if isinstance(key, tuple):
            cur[key[0]][key[1]] = repl
        else:
            cur[key] = repl
        return root

    def walk(n, path, root):
        k = n["k"]
        if k == "static" and len(n["stmts"]) > 1:
            for j in range(len(n["stmts"])):
                later = [a for s in n["stmts"][j + 1 :] for a in s["args"]] + [x for s in n["stmts"][j + 1 :] for x in (s.get("kw") or {}).values()]
                if any(_refs_v(a, j) for a in later) or _refs_v(n["ret"], j):
                    continue
                m = copy.deepcopy(n)
                del m["stmts"][j]
                for s in m["stmts"][j:]:
                    s["args"] = [_renumber(a, j) for a in s["args"]]
                    if s.get("kw"):
                        s["kw"] = {kk: _renumber(x, j) for kk, x in s["kw"].items()}
                m["ret"] = _renumber(m["ret"], j)
                out.append(("drop-stmt", rebuild(root, path, m)))
        if k == "map":
            try:
                if sig(n["inner"])[1] == n["out"]:
                    out.append(("unwrap-map", rebuild(root, path, n["inner"])))
            except Exception:
                pass
        if k == "static":
            for j, s in enumerate(n["stmts"]):
                walk(s["callee"], path + (("stmts", j), "callee"), root)
        elif k in ("switch", "mix"):
            for j, b in enumerate(n["branches"]):
                walk(b, path + (("branches", j),), root)
        elif k == "or_else":
            walk(n["a"], path + ("a",), root)
            walk(n["b"], path + ("b",), root)
        elif "inner" in n:
            walk(n["inner"], path + ("inner",), root)

    walk(node, (), node)
    return out


def _fix_steps_for_program(sc):
    """drop constraint entries / sub-requests that address choices the simplified
    program no longer has"""
    from sim.ref import universe_map
    from sim.script import static_root

    uni = set(universe_map(sc["programs"][0]))
    for st in sc["steps"]:
        if st.get("constraint") and st.get("op") != "index_edit":
            st["constraint"] = [e for e in st["constraint"] if tuple(e[0]) in uni]
        if st.get("op") == "index_edit" and st.get("constraint"):
            st["constraint"] = [e for e in st["constraint"] if any(tuple(u[1:]) == tuple(e[0]) for u in uni if u and isinstance(u[0], int))]
        if st.get("op") == "static_edit":
            sr = static_root(sc["programs"][0])
            have = {tuple(s["addr"]) for s in sr["stmts"]} if sr else set()
            st["subs"] = [e for e in st.get("subs", []) if tuple(e["addr"]) in have]
    return sc


def _candidates_generic(script, v):
    ops = script.get("ops")
    if not ops:
        return
    for i in reversed(range(len(ops))):
        c = copy.deepcopy(script)
        del c["ops"][i]
        yield "op%d" % i, c


def minimise(engine, script, pid, v):
    """Greedy ddmin; returns (script, violation, runs)."""
    fp = (v["oracle"], v["class"])
    t0 = time.time()
    runs = 0
    cur, cur_v = script, v
    progress = True
    while progress and runs < SHRINK_BUDGET_RUNS and time.time() - t0 < SHRINK_BUDGET_S:
        progress = False
        gen = _candidates_gfisim(cur, cur_v) if engine == "gfisim" else _candidates_generic(cur, cur_v)
        for _, cand in gen:
            if runs >= SHRINK_BUDGET_RUNS or time.time() - t0 > SHRINK_BUDGET_S:
                break
            runs += 1
            try:
                vs = _violations_of(engine, cand, pid)
            except Exception:
                continue
            hit = _find(vs, pid, fp)
            if hit is not None:
                cur, cur_v = cand, hit
                progress = True
                break
    return cur, cur_v, runs


def shrink_job(job):
    """Worker entry: minimise and return the result (JSON-able)."""
    script, v, runs = minimise(job["engine"], job["script"], job["pid"], job["violation"])
    return {"script": script, "violation": v, "runs": runs}


def repo_state():
    try:
        head = subprocess.run(["git", "-C", "/repo", "rev-parse", "HEAD"], capture_output=True, text=True).stdout.strip()
        dirty = subprocess.run(["git", "-C", "/repo", "status", "--porcelain", "--", "src"], capture_output=True, text=True).stdout.strip()
        return head + ("+dirty" if dirty else "")
    except Exception:
        return "unknown"


def minimise_and_write(pid, tier, engine, result, v, known):
    """Minimise in a fresh worker, classify again against known findings, write
    the replay file.  Returns its path, or None if the minimised violation is an
    instance of a listed finding."""
    import multiprocessing as mp
    from concurrent.futures import ProcessPoolExecutor

    from sim import findings as F

    job = {"engine": engine, "script": result["script"], "pid": pid, "violation": v}
    try:
        with ProcessPoolExecutor(max_workers=1, mp_context=mp.get_context("spawn")) as ex:
            out = ex.submit(_shrink_entry, job).result(timeout=SHRINK_BUDGET_S + 600)
    except Exception as e:  # shrinking is best effort: fall back to the original
        out = {"script": result["script"], "violation": v, "runs": 0, "note": "shrink failed: %s" % e}
    if F.match(known, pid, out["script"], out["violation"]):
        return None
    out_root = os.environ.get("VERIF_OUT", ROOT)
    os.makedirs(os.path.join(out_root, "replays"), exist_ok=True)
    n = 0
    while True:
        path = os.path.join(out_root, "replays", "%s-%d-%d.json" % (pid, result["seed"] % 10**9, n))
        if not os.path.exists(path):
            break
        n += 1
    rp = {
        "property_id": pid,
        "engine": engine,
        "tier": tier,
        "seed": result["seed"],
        "session": result["j"],
        "fingerprint": [out["violation"]["oracle"], out["violation"]["class"]],
        "violation": out["violation"],
        "shrink_runs": out["runs"],
        "repo": repo_state(),
        "script": out["script"],
    }
    with open(path, "w") as f:
        json.dump(rp, f, indent=1, default=str)
        f.write("\n")
    return path


def _shrink_entry(job):
    import warnings

    warnings.filterwarnings("ignore")
    os.environ.setdefault("JAX_PLATFORMS", "cpu")
    return shrink_job(job)


def run_replay(rp):
    """Re-execute a replay file in THIS process; {'reproduced': bool, ...}."""
    pid = rp["property_id"]
    vs = _violations_of(rp["engine"], rp["script"], pid)
    hit = _find(vs, pid, rp["fingerprint"])
    if hit is not None:
        return {"reproduced": True, "detail": hit["detail"], "violation": hit}
    return {"reproduced": False, "note": "violations now: %s" % sorted({v["oracle"] for v in vs})}


def run_replay_subprocess(rp, pid_override=None):
    """Replay in a fresh interpreter (used for witnesses of known findings)."""
    import multiprocessing as mp
    from concurrent.futures import ProcessPoolExecutor

    try:
        with ProcessPoolExecutor(max_workers=1, mp_context=mp.get_context("spawn")) as ex:
            return ex.submit(_replay_entry, rp).result(timeout=900)
    except Exception as e:
        return {"reproduced": False, "note": "replay crashed: %s" % e}


def _replay_entry(rp):
    import warnings

    warnings.filterwarnings("ignore")
    os.environ.setdefault("JAX_PLATFORMS", "cpu")
    return run_replay(rp)
